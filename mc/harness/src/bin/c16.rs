//! C16 — a command means the same via every entry path.
//!
//! (a) parser differential: `Command::from_resp` (parser A, src/redis/parser.rs) against
//!     `Command::from_resp_zero_copy` (parser B, src/redis/commands.rs) on the same frame, over a
//!     bounded-exhaustive frame space whose alphabet (command names, option keywords) is extracted
//!     from the two parser sources (and the Lua translator) when the check starts.
//! (b) Lua: twin executors, one executes the command directly, the others run
//!     `EVAL "return redis.call(unpack(ARGV))"` / `redis.pcall`; replies must agree modulo the
//!     documented RESP -> Lua -> RESP conversion and the visible keyspaces must be equal.
//!
//! Every violating case is reduced to a 1-minimal core (drop / simplify tokens while the outcome
//! pair keeps its class) before its signature is computed, so one root cause yields few signatures.
use bytes::Bytes;
use redis_sim::redis::{Command, CommandExecutor, RespValue, RespValueZeroCopy};
use redis_sim::simulator::VirtualTime;
use serde_json::{json, Value};
use std::collections::{BTreeMap, BTreeSet};
use std::panic::{catch_unwind, AssertUnwindSafe};
use vh::cmdgen::{self, Profile};
use vh::dump::{self, Keyspace};
use vh::resp::{self, Argv};
use vh::{cli, par, Reporter, Tier};

const NOW_MS: u64 = 5_000;

// ---------------------------------------------------------------------------------------------
// frames
// ---------------------------------------------------------------------------------------------

/// One element of a command frame. `B` is the normal case (bulk string).
#[derive(Clone, Debug, PartialEq, Eq, PartialOrd, Ord, Hash)]
enum El {
    B(Vec<u8>),
    I(i64),
    Nil,
    NilArr,
    Arr(Vec<El>),
    Simple(String),
}

type Frame = Vec<El>;

fn frame_of(a: &Argv) -> Frame {
    a.iter().map(|t| El::B(t.clone())).collect()
}

fn el_a(e: &El) -> RespValue {
    match e {
        El::B(b) => RespValue::BulkString(Some(b.clone())),
        El::I(i) => RespValue::Integer(*i),
        El::Nil => RespValue::BulkString(None),
        El::NilArr => RespValue::Array(None),
        El::Arr(v) => RespValue::Array(Some(v.iter().map(el_a).collect())),
        El::Simple(s) => RespValue::SimpleString(s.clone().into()),
    }
}

fn el_b(e: &El) -> RespValueZeroCopy {
    match e {
        El::B(b) => RespValueZeroCopy::BulkString(Some(Bytes::copy_from_slice(b))),
        El::I(i) => RespValueZeroCopy::Integer(*i),
        El::Nil => RespValueZeroCopy::BulkString(None),
        El::NilArr => RespValueZeroCopy::Array(None),
        El::Arr(v) => RespValueZeroCopy::Array(Some(v.iter().map(el_b).collect())),
        El::Simple(s) => RespValueZeroCopy::SimpleString(Bytes::copy_from_slice(s.as_bytes())),
    }
}

fn show_el(e: &El) -> String {
    match e {
        El::B(b) => resp::esc(b),
        El::I(i) => format!("<int {i}>"),
        El::Nil => "<nil-bulk>".into(),
        El::NilArr => "<nil-array>".into(),
        El::Arr(v) => format!("<array [{}]>", v.iter().map(show_el).collect::<Vec<_>>().join(" ")),
        El::Simple(s) => format!("<simple {s}>"),
    }
}

fn show_frame(f: &Frame) -> String {
    f.iter().map(show_el).collect::<Vec<_>>().join(" ")
}

fn el_json(e: &El) -> Value {
    match e {
        El::B(b) => json!({ "b": resp::esc(b) }),
        El::I(i) => json!({ "i": i }),
        El::Nil => json!("nil"),
        El::NilArr => json!("nilarray"),
        El::Arr(v) => json!({ "a": v.iter().map(el_json).collect::<Vec<_>>() }),
        El::Simple(s) => json!({ "s": s }),
    }
}

fn el_from_json(v: &Value) -> El {
    if let Some(s) = v.as_str() {
        return if s == "nilarray" { El::NilArr } else { El::Nil };
    }
    if let Some(b) = v.get("b").and_then(|x| x.as_str()) {
        return El::B(resp::unescape(b));
    }
    if let Some(i) = v.get("i").and_then(|x| x.as_i64()) {
        return El::I(i);
    }
    if let Some(a) = v.get("a").and_then(|x| x.as_array()) {
        return El::Arr(a.iter().map(el_from_json).collect());
    }
    if let Some(s) = v.get("s").and_then(|x| x.as_str()) {
        return El::Simple(s.to_string());
    }
    El::Nil
}

fn frame_json(f: &Frame) -> Value {
    Value::Array(f.iter().map(el_json).collect())
}

fn frame_from_json(v: &Value) -> Frame {
    v.as_array().map(|a| a.iter().map(el_from_json).collect()).unwrap_or_default()
}

// ---------------------------------------------------------------------------------------------
// outcomes of the two parsers
// ---------------------------------------------------------------------------------------------

#[derive(Clone, Debug, PartialEq, Eq)]
enum Out {
    Ok(String),
    Err(String),
    Panic(String),
}

fn parse_a(f: &Frame) -> Out {
    let v = RespValue::Array(Some(f.iter().map(el_a).collect()));
    match catch_unwind(AssertUnwindSafe(|| Command::from_resp(&v))) {
        Ok(Ok(c)) => Out::Ok(format!("{c:?}")),
        Ok(Err(e)) => Out::Err(e),
        Err(p) => Out::Panic(vh::panic_text(&p)),
    }
}

fn parse_b(f: &Frame) -> Out {
    let v = RespValueZeroCopy::Array(Some(f.iter().map(el_b).collect()));
    match catch_unwind(AssertUnwindSafe(|| Command::from_resp_zero_copy(&v))) {
        Ok(Ok(c)) => Out::Ok(format!("{c:?}")),
        Ok(Err(e)) => Out::Err(e),
        Err(p) => Out::Panic(vh::panic_text(&p)),
    }
}

fn variant_of(debug: &str) -> &str {
    let end = debug.find(|c: char| !(c.is_ascii_alphanumeric() || c == '_')).unwrap_or(debug.len());
    &debug[..end]
}

/// Text with every word that echoes a token of the frame replaced by `_` and digit runs by `#`
/// (first line only): the *class* of an error / panic message, independent of concrete values.
fn normalize_msg(msg: &str, toks: &[String]) -> String {
    let line = msg.lines().next().unwrap_or("");
    let mut out = String::new();
    for w in line.split(|c: char| c.is_whitespace() || matches!(c, '\'' | '"' | '|' | ':' | ',' | '`')) {
        if w.is_empty() {
            continue;
        }
        if !out.is_empty() {
            out.push(' ');
        }
        let num = w.strip_prefix(['-', '+']).unwrap_or(w);
        if !num.is_empty() && num.bytes().all(|c| c.is_ascii_digit()) {
            out.push('#');
            continue;
        }
        let up = w.to_uppercase();
        if up.chars().any(|c| c.is_alphabetic()) && toks.iter().any(|t| *t == up) {
            out.push('_');
            continue;
        }
        let mut prev_digit = false;
        for c in w.chars() {
            if c.is_ascii_digit() {
                if !prev_digit {
                    out.push('#');
                }
                prev_digit = true;
            } else {
                out.push(c);
                prev_digit = false;
            }
        }
    }
    out
}

fn frame_tokens_upper(f: &Frame) -> Vec<String> {
    f.iter()
        .filter_map(|e| match e {
            El::B(b) if !b.is_empty() => Some(String::from_utf8_lossy(b).to_uppercase()),
            _ => None,
        })
        .collect()
}

fn out_class(o: &Out, toks: &[String]) -> String {
    match o {
        Out::Ok(d) => format!("ok:{}", variant_of(d)),
        Out::Err(e) => format!("err:{}", normalize_msg(e, toks)),
        Out::Panic(p) => format!("panic:{}", normalize_msg(p, toks)),
    }
}

fn drift_kind(a: &Out, b: &Out) -> Option<&'static str> {
    match (a, b) {
        (Out::Panic(_), Out::Panic(_)) => Some("panic-both"),
        (Out::Panic(_), _) => Some("panic-A"),
        (_, Out::Panic(_)) => Some("panic-B"),
        (Out::Ok(x), Out::Ok(y)) => (x != y).then_some("different-command"),
        (Out::Ok(_), Out::Err(_)) => Some("ok-vs-err"),
        (Out::Err(_), Out::Ok(_)) => Some("err-vs-ok"),
        (Out::Err(x), Out::Err(y)) => (x != y).then_some("different-error"),
    }
}

/// Class of a parser-differential outcome: None when the parsers agree.
fn eval_a(f: &Frame) -> Option<(String, String, String)> {
    let (a, b) = (parse_a(f), parse_b(f));
    let k = drift_kind(&a, &b)?;
    let toks = frame_tokens_upper(f);
    Some((k.to_string(), out_class(&a, &toks), out_class(&b, &toks)))
}

// ---------------------------------------------------------------------------------------------
// reduction to a 1-minimal core + shape
// ---------------------------------------------------------------------------------------------

fn rank(e: &El) -> u8 {
    match e {
        El::B(b) if b == b"zz" => 0,
        El::B(b) if b == b"1" => 1,
        _ => 2,
    }
}

/// Greedy reduction: drop arguments (last first), then replace arguments by `zz` / `1`, as long as
/// `eval` keeps returning the class of the original case. The command name is only upper-cased.
fn reduce<D: PartialEq>(frame: &Frame, eval: &dyn Fn(&Frame) -> Option<D>) -> Frame {
    let d0 = match eval(frame) {
        Some(d) => d,
        None => return frame.clone(),
    };
    let mut cur = frame.clone();
    if let Some(El::B(n)) = cur.first() {
        let up = String::from_utf8_lossy(n).to_uppercase().into_bytes();
        if *n != up && String::from_utf8(n.clone()).is_ok() {
            let mut cand = cur.clone();
            cand[0] = El::B(up);
            if eval(&cand).as_ref() == Some(&d0) {
                cur = cand;
            }
        }
    }
    let mut steps = 0usize;
    'outer: loop {
        // every accepted step strictly simplifies the frame; the cap is a backstop only
        steps += 1;
        if steps > 1000 {
            break;
        }
        for i in (1..cur.len()).rev() {
            let mut cand = cur.clone();
            cand.remove(i);
            if eval(&cand).as_ref() == Some(&d0) {
                cur = cand;
                continue 'outer;
            }
        }
        // spelling: upper-case an argument when its letter case does not matter
        for i in 1..cur.len() {
            if let El::B(b) = &cur[i] {
                let up = b.to_ascii_uppercase();
                if up != *b && rank(&cur[i]) == 2 {
                    let mut cand = cur.clone();
                    cand[i] = El::B(up);
                    if eval(&cand).as_ref() == Some(&d0) {
                        cur = cand;
                        continue 'outer;
                    }
                }
            }
        }
        // option + value pairs: drop two adjacent arguments at once
        for i in (1..cur.len().saturating_sub(1)).rev() {
            let mut cand = cur.clone();
            cand.drain(i..i + 2);
            if eval(&cand).as_ref() == Some(&d0) {
                cur = cand;
                continue 'outer;
            }
        }
        for i in 1..cur.len() {
            for rep in [El::B(b"zz".to_vec()), El::B(b"1".to_vec())] {
                if rank(&rep) >= rank(&cur[i]) {
                    continue;
                }
                let mut cand = cur.clone();
                cand[i] = rep;
                if eval(&cand).as_ref() == Some(&d0) {
                    cur = cand;
                    continue 'outer;
                }
            }
        }
        break;
    }
    cur
}

fn token_class(e: &El, keywords: &BTreeSet<String>) -> String {
    let b = match e {
        El::B(b) => b,
        El::I(_) => return "nonbulk-int".into(),
        El::Nil => return "nonbulk-nil".into(),
        El::NilArr => return "nonbulk-nilarray".into(),
        El::Arr(_) => return "nonbulk-array".into(),
        El::Simple(_) => return "nonbulk-simple".into(),
    };
    if b.is_empty() {
        return "empty".into();
    }
    let s = match std::str::from_utf8(b) {
        Ok(s) if !s.chars().any(|c| c.is_control()) => s,
        _ => return "bin".into(),
    };
    let up = s.to_uppercase();
    if keywords.contains(&up) {
        // keyword text; lower-case when the frame did not spell it in upper case
        return if s == up { up } else { s.to_lowercase() };
    }
    let digits = s.strip_prefix(['-', '+']).unwrap_or(s);
    if !digits.is_empty() && digits.bytes().all(|c| c.is_ascii_digit()) {
        return match s.parse::<i128>() {
            Ok(v) if v >= (1i128 << 62) => "huge",
            Ok(v) if v <= -(1i128 << 62) => "neg-huge",
            Ok(v) if v < 0 => "neg",
            Ok(_) => "int",
            Err(_) => "huge",
        }
        .into();
    }
    if s.parse::<f64>().is_ok() {
        return "float".into();
    }
    if s.starts_with('(') || s.starts_with('[') {
        return "bound".into();
    }
    "str".into()
}

fn name_of(f: &Frame) -> String {
    match f.first() {
        Some(El::B(b)) if !b.is_empty() => {
            let s = String::from_utf8_lossy(b).to_uppercase();
            if s.chars().all(|c| c.is_ascii_graphic()) {
                s
            } else {
                "<bin-name>".into()
            }
        }
        Some(El::B(_)) => "<empty-name>".into(),
        Some(_) => "<nonbulk-name>".into(),
        None => "<empty-frame>".into(),
    }
}

fn shape_of(f: &Frame, keywords: &BTreeSet<String>) -> String {
    let mut parts: Vec<String> = Vec::new();
    if let Some(El::B(n)) = f.first() {
        if let Ok(s) = std::str::from_utf8(n) {
            if s.to_uppercase() != s {
                parts.push("name-not-uppercase".into());
            }
        }
    }
    for e in f.iter().skip(1) {
        parts.push(token_class(e, keywords));
    }
    if parts.is_empty() {
        "(no-args)".into()
    } else {
        parts.join(" ")
    }
}

// ---------------------------------------------------------------------------------------------
// alphabet extraction from the sources of the code under check
// ---------------------------------------------------------------------------------------------

fn repo_root() -> String {
    if let Ok(p) = std::env::var("VERIF_REPO") {
        return p;
    }
    // the path the harness was built against (follows a scratch copy of the harness by itself)
    let manifest = concat!(env!("CARGO_MANIFEST_DIR"), "/Cargo.toml");
    if let Ok(t) = std::fs::read_to_string(manifest) {
        for l in t.lines() {
            if l.trim_start().starts_with("redis-sim") {
                if let Some(i) = l.find("path") {
                    let rest = &l[i..];
                    if let Some(q) = rest.find('"') {
                        if let Some(q2) = rest[q + 1..].find('"') {
                            return rest[q + 1..q + 1 + q2].to_string();
                        }
                    }
                }
            }
        }
    }
    "/repo".to_string()
}

fn is_kw_literal(s: &str) -> bool {
    let b = s.as_bytes();
    b.len() >= 2
        && b[0].is_ascii_uppercase()
        && b.iter().all(|c| c.is_ascii_uppercase() || c.is_ascii_digit() || *c == b'-')
}

fn literals(line: &str) -> Vec<String> {
    let mut out = Vec::new();
    let b = line.as_bytes();
    let mut i = 0;
    while i < b.len() {
        if b[i] == b'"' {
            let mut j = i + 1;
            while j < b.len() && b[j] != b'"' {
                if b[j] == b'\\' {
                    j += 1;
                }
                j += 1;
            }
            if j < b.len() {
                out.push(line[i + 1..j].to_string());
            }
            i = j + 1;
        } else if b[i] == b'/' && i + 1 < b.len() && b[i + 1] == b'/' {
            break;
        } else {
            i += 1;
        }
    }
    out
}

/// `"A" | "B" => …` : the literals of a match arm on string patterns, else None.
fn arm_literals(line: &str) -> Option<Vec<String>> {
    let t = line.trim_start();
    if !t.starts_with('"') {
        return None;
    }
    let pos = t.find("=>")?;
    let pat = &t[..pos];
    let mut lits = Vec::new();
    for piece in pat.split('|') {
        let p = piece.trim();
        if p.len() >= 2 && p.starts_with('"') && p.ends_with('"') && !p[1..p.len() - 1].contains('"') {
            lits.push(p[1..p.len() - 1].to_string());
        } else {
            return None;
        }
    }
    Some(lits)
}

#[derive(Default, Debug)]
struct SrcInfo {
    names: BTreeSet<String>,
    keywords: BTreeSet<String>,
    per_cmd: BTreeMap<String, BTreeSet<String>>,
}

/// Command names = literals of the outermost (least indented) string-pattern match arms of the
/// text; keywords = every other upper-case literal; per command: the keywords inside its arm.
fn scan_source(text: &str) -> SrcInfo {
    let mut info = SrcInfo::default();
    let indent = |l: &str| l.len() - l.trim_start().len();
    let mut top = usize::MAX;
    for l in text.lines() {
        if let Some(lits) = arm_literals(l) {
            if lits.iter().all(|s| is_kw_literal(s)) {
                top = top.min(indent(l));
            }
        }
    }
    let mut current: Vec<String> = Vec::new();
    for l in text.lines() {
        if l.trim_start().starts_with("//") {
            continue;
        }
        if indent(l) == top {
            if let Some(lits) = arm_literals(l) {
                if lits.iter().all(|s| is_kw_literal(s)) {
                    current = lits.clone();
                    for n in &lits {
                        info.names.insert(n.clone());
                        info.per_cmd.entry(n.clone()).or_default();
                    }
                    // literals after the `=>` on the same line are keywords of this arm
                    let after = &l[l.find("=>").unwrap() + 2..];
                    for lit in literals(after) {
                        if is_kw_literal(&lit) {
                            info.keywords.insert(lit.clone());
                            for n in &current {
                                info.per_cmd.entry(n.clone()).or_default().insert(lit.clone());
                            }
                        }
                    }
                    continue;
                }
            }
            if l.trim_start().starts_with("_ =>") {
                current.clear();
                continue;
            }
        }
        for lit in literals(l) {
            if is_kw_literal(&lit) {
                info.keywords.insert(lit.clone());
                for n in &current {
                    info.per_cmd.entry(n.clone()).or_default().insert(lit.clone());
                }
            }
        }
    }
    info
}

struct Alphabet {
    names: Vec<String>,
    lua_arms: BTreeSet<String>,
    keywords: BTreeSet<String>,
    per_cmd: BTreeMap<String, BTreeSet<String>>,
    names_from_parser_a: usize,
    names_from_parser_b: usize,
}

fn lua_translator_text(script_ops: &str) -> &str {
    let start = script_ops.find("fn parse_lua_command_bytes").unwrap_or(0);
    let rest = &script_ops[start..];
    // the function ends where the next method of the impl starts
    let end = rest[1..].find("\n    fn ").map(|i| i + 1).unwrap_or(rest.len());
    &rest[..end]
}

fn build_alphabet() -> Result<Alphabet, String> {
    let root = repo_root();
    let read = |p: &str| std::fs::read_to_string(format!("{root}/{p}")).map_err(|e| format!("cannot read {root}/{p}: {e}"));
    let a = scan_source(&read("src/redis/parser.rs")?);
    let b = scan_source(&read("src/redis/commands.rs")?);
    let lua_src = read("src/redis/executor/script_ops.rs")?;
    let l = scan_source(lua_translator_text(&lua_src));
    let gen: BTreeSet<String> = cmdgen::command_names().into_iter().collect();
    // sanity of the extraction: it must find (almost) everything the template list knows
    let real: Vec<&String> = gen.iter().filter(|n| a.names.contains(*n) || b.names.contains(*n)).collect();
    if a.names.len() < 50 || b.names.len() < 50 || real.len() * 10 < gen.len() * 8 || l.names.len() < 5 {
        return Err(format!(
            "alphabet extraction found too little (parser.rs {} names, commands.rs {} names, lua translator {} names, {} of {} template names) — source layout changed, update scan_source",
            a.names.len(),
            b.names.len(),
            l.names.len(),
            real.len(),
            gen.len()
        ));
    }
    let mut names: BTreeSet<String> = gen.clone();
    names.extend(a.names.iter().cloned());
    names.extend(b.names.iter().cloned());
    names.extend(l.names.iter().cloned());
    names.insert("ZZUNKNOWN".into());
    let mut keywords: BTreeSet<String> = BTreeSet::new();
    keywords.extend(a.keywords.iter().cloned());
    keywords.extend(b.keywords.iter().cloned());
    keywords.extend(l.keywords.iter().cloned());
    let mut per_cmd: BTreeMap<String, BTreeSet<String>> = BTreeMap::new();
    for src in [&a, &b, &l] {
        for (n, k) in &src.per_cmd {
            per_cmd.entry(n.clone()).or_default().extend(k.iter().cloned());
        }
    }
    Ok(Alphabet {
        names: names.into_iter().collect(),
        lua_arms: l.names,
        keywords,
        per_cmd,
        names_from_parser_a: a.names.len(),
        names_from_parser_b: b.names.len(),
    })
}

fn generic_tokens() -> Vec<Vec<u8>> {
    let mut v: Vec<Vec<u8>> = [
        "k1", "k2", "a", "abc", "", "0", "1", "-1", "2", "10", "9223372036854775807", "9223372036854775808",
        "-9223372036854775808", "18446744073709551615", "18446744073709551616", "1.5", "inf", "-inf", "+inf",
        "nan", "(1", "*",
    ]
    .iter()
    .map(|s| s.as_bytes().to_vec())
    .collect();
    v.push(b"\xff".to_vec());
    v
}

fn case_variants(name: &str) -> Vec<Vec<u8>> {
    let up = name.to_uppercase();
    let low = name.to_lowercase();
    let mut mixed = String::new();
    for (i, c) in low.chars().enumerate() {
        if i % 2 == 0 {
            mixed.extend(c.to_uppercase());
        } else {
            mixed.push(c);
        }
    }
    let mut v = vec![up.into_bytes(), low.clone().into_bytes(), mixed.into_bytes()];
    // a spelling whose upper-casing needs Unicode rules: U+017F (long s) and U+0131 (dotless i) upper-case to S and I;
    // whatever a parser makes of such a name, every entry path has to make the same of it
    if let Some(i) = low.find('s') {
        v.push(format!("{}\u{17f}{}", &low[..i], &low[i + 1..]).into_bytes());
    } else if let Some(i) = low.find('i') {
        v.push(format!("{}\u{131}{}", &low[..i], &low[i + 1..]).into_bytes());
    }
    v.dedup();
    v
}

// ---------------------------------------------------------------------------------------------
// part (a): evaluation of one frame
// ---------------------------------------------------------------------------------------------

#[derive(Default)]
struct AStats {
    frames: u64,
    nontrivial: u64,
    both_ok: u64,
    both_err: u64,
    drifting: u64,
    variants: BTreeSet<String>,
    errors: BTreeSet<String>,
    viol: BTreeMap<String, (String, Value, u64)>,
}

impl AStats {
    fn merge(&mut self, o: AStats) {
        self.frames += o.frames;
        self.nontrivial += o.nontrivial;
        self.both_ok += o.both_ok;
        self.both_err += o.both_err;
        self.drifting += o.drifting;
        self.variants.extend(o.variants);
        self.errors.extend(o.errors);
        for (k, (d, r, c)) in o.viol {
            match self.viol.get_mut(&k) {
                Some(e) => e.2 += c,
                None => {
                    self.viol.insert(k, (d, r, c));
                }
            }
        }
    }
}

fn trunc(s: &str) -> String {
    if s.len() > 240 {
        let mut e = 240;
        while !s.is_char_boundary(e) {
            e -= 1;
        }
        format!("{}…", &s[..e])
    } else {
        s.to_string()
    }
}

fn show_out(o: &Out) -> String {
    match o {
        Out::Ok(d) => format!("Ok({})", trunc(d)),
        Out::Err(e) => format!("Err({:?})", trunc(e)),
        Out::Panic(p) => format!("PANIC({:?})", trunc(p.lines().next().unwrap_or(""))),
    }
}

/// Signature + detail of a drifting frame (after reduction), or None when the parsers agree.
fn judge_a(f: &Frame, keywords: &BTreeSet<String>) -> Option<(String, String, Frame)> {
    eval_a(f)?;
    let core = reduce(f, &eval_a);
    let (a, b) = (parse_a(&core), parse_b(&core));
    let kind = drift_kind(&a, &b).unwrap_or("vanished");
    let sig = format!("parser-drift {} {} {}", name_of(&core), shape_of(&core, keywords), kind);
    let detail = format!(
        "frame `{}` (minimal core of `{}`): from_resp -> {} ; from_resp_zero_copy -> {}",
        show_frame(&core),
        show_frame(f),
        show_out(&a),
        show_out(&b)
    );
    Some((sig, detail, core))
}

fn eval_frame_a(f: &Frame, keywords: &BTreeSet<String>, st: &mut AStats, count: bool) {
    let (a, b) = (parse_a(f), parse_b(f));
    if count {
        st.frames += 1;
        let unknown = |o: &Out| matches!(o, Out::Ok(d) if variant_of(d) == "Unknown");
        if !(unknown(&a) && unknown(&b)) {
            st.nontrivial += 1;
        }
    }
    match (&a, &b) {
        (Out::Ok(x), Out::Ok(y)) if x == y => {
            if count {
                st.both_ok += 1;
            }
            let v = variant_of(x);
            if !st.variants.contains(v) {
                st.variants.insert(v.to_string());
            }
            return;
        }
        (Out::Err(x), Out::Err(y)) if x == y => {
            if count {
                st.both_err += 1;
            }
            if st.errors.len() < 5000 {
                let n = normalize_msg(x, &frame_tokens_upper(f));
                if !st.errors.contains(&n) {
                    st.errors.insert(n);
                }
            }
            return;
        }
        _ => {}
    }
    st.drifting += 1;
    if let Some((sig, detail, core)) = judge_a(f, keywords) {
        match st.viol.get_mut(&sig) {
            Some(e) => e.2 += 1,
            None => {
                st.viol.insert(sig, (detail, json!({"part": "a", "frame": frame_json(&core), "found_as": frame_json(f)}), 1));
            }
        }
    }
}

// ---------------------------------------------------------------------------------------------
// part (b): Lua entry path
// ---------------------------------------------------------------------------------------------

const SCRIPT_CALL: &str = "return redis.call((unpack or table.unpack)(ARGV))";
const SCRIPT_PCALL: &str = "return redis.pcall((unpack or table.unpack)(ARGV))";
/// Tells a RAISED error (redis.call's contract: the script stops there) from a returned error table (redis.pcall's):
/// a bare `return redis.call(..)` answers with an error reply in both cases.
const SCRIPT_CALL_GUARDED: &str = "local ok, r = pcall(redis.call, (unpack or table.unpack)(ARGV)); if ok then return r end; return {err = 'RAISED ' .. ((type(r) == 'table' and r.err) or tostring(r))}";
const SCRIPT_PCALL_GUARDED: &str = "local ok, r = pcall(redis.pcall, (unpack or table.unpack)(ARGV)); if ok then return r end; return {err = 'RAISED ' .. ((type(r) == 'table' and r.err) or tostring(r))}";

/// Names that are not data commands (server / connection / scripting / transaction / stubs) or whose
/// result is random by specification; they are outside part (b).
const NOT_DATA: &[&str] = &[
    "PING", "INFO", "TIME", "DBSIZE", "CONFIG", "SELECT", "ECHO", "AUTH", "ACL", "FLUSHDB", "FLUSHALL", "MULTI",
    "EXEC", "DISCARD", "WATCH", "UNWATCH", "EVAL", "EVALSHA", "SCRIPT", "FUNCTION", "COMMAND", "CLIENT", "OBJECT",
    "DEBUG", "WAIT", "RANDOMKEY", "SPOP", "NOSUCHCMD", "ZZUNKNOWN", "XADD", "XINFO", "PUBLISH", "HELLO", "SUBSCRIBE",
];

fn states(thorough: bool) -> Vec<(&'static str, Vec<Argv>)> {
    let l = |v: &[&str]| v.iter().map(|s| resp::line(s)).collect::<Vec<_>>();
    let mut v = vec![
        ("empty", l(&[])),
        ("k1=string:1", l(&["SET k1 1"])),
        ("k1=string:abc", l(&["SET k1 abc"])),
        ("k1=list", l(&["RPUSH k1 a b"])),
        ("k1=hash", l(&["HSET k1 a 1 b x"])),
        ("k1=set", l(&["SADD k1 a b"])),
        ("k1=zset", l(&["ZADD k1 1 a 2 b"])),
        ("k1=string+ttl", l(&["SET k1 10 PX 100000"])),
        ("k1=list+ttl,k2=string", l(&["RPUSH k1 a", "EXPIRE k1 100", "SET k2 5"])),
    ];
    if thorough {
        v.extend(vec![
            ("k1=string:i64max", l(&["SET k1 9223372036854775807"])),
            ("k1=list,k2=list", l(&["RPUSH k1 a b", "RPUSH k2 c"])),
            ("k1=hash:i64max+ttl", l(&["HSET k1 a 9223372036854775807", "EXPIRE k1 100"])),
            ("k1=set+ttl,k2=set", l(&["SADD k1 a", "EXPIRE k1 100", "SADD k2 b"])),
            ("k1=zset:inf,k2=zset", l(&["ZADD k1 -inf a inf b", "ZADD k2 1.5 a"])),
        ]);
    }
    v
}

fn exec_cmd(ex: &mut CommandExecutor, cmd: &Command) -> RespValue {
    ex.set_time(VirtualTime::from_millis(NOW_MS));
    match catch_unwind(AssertUnwindSafe(|| ex.execute(cmd))) {
        Ok(r) => r,
        Err(p) => RespValue::Error(format!("PANIC {}", vh::panic_text(&p)).into()),
    }
}

fn exec_argv(ex: &mut CommandExecutor, a: &Argv) -> RespValue {
    match resp::parse(a) {
        Ok(cmd) => exec_cmd(ex, &cmd),
        Err(e) => RespValue::Error(format!("PARSE {e}").into()),
    }
}

fn build(seed: &[Argv]) -> CommandExecutor {
    let mut ex = CommandExecutor::new();
    for a in seed {
        exec_argv(&mut ex, a);
    }
    ex
}

fn snapshot(ex: &mut CommandExecutor) -> Keyspace {
    dump::dump_via(|a| exec_argv(ex, a))
}

fn eval_argv(script: &str, inst: &Argv) -> Argv {
    let mut v: Argv = vec![b"EVAL".to_vec(), script.as_bytes().to_vec(), b"0".to_vec()];
    v.extend(inst.iter().cloned());
    v
}

/// The documented RESP -> Lua -> RESP round trip of a reply (Redis EVAL conversion rules):
/// status -> {ok=} -> status; integer <-> integer; bulk <-> string; nil bulk / nil array -> false
/// -> nil bulk; array -> table -> array (element-wise); error -> {err=} -> error.
fn conv(v: &RespValue) -> RespValue {
    match v {
        RespValue::Array(None) => RespValue::BulkString(None),
        RespValue::Array(Some(items)) => RespValue::Array(Some(items.iter().map(conv).collect())),
        other => other.clone(),
    }
}

const UNORDERED: &[&str] = &["SMEMBERS", "HKEYS", "HVALS", "KEYS", "SINTER", "SUNION", "SDIFF"];

/// Replies whose element order is unspecified are compared as multisets.
fn canon(name: &str, v: &RespValue) -> String {
    if let RespValue::Array(Some(items)) = v {
        if UNORDERED.contains(&name) {
            let mut s: Vec<String> = items.iter().map(resp::show).collect();
            s.sort();
            return format!("[{}]", s.join(","));
        }
        if name == "HGETALL" && items.len() % 2 == 0 {
            let mut s: Vec<String> = items.chunks(2).map(|c| format!("{}={}", resp::show(&c[0]), resp::show(&c[1]))).collect();
            s.sort();
            return format!("[{}]", s.join(","));
        }
    }
    resp::show(v)
}

fn err_text(v: &RespValue) -> Option<String> {
    match v {
        RespValue::Error(e) => Some(e.to_string()),
        _ => None,
    }
}

#[derive(Clone, Debug)]
struct LuaCase {
    direct_accepted: bool,
    direct: RespValue,
    call: RespValue,
    pcall: RespValue,
    ks_direct: Keyspace,
    ks_call: Keyspace,
    ks_pcall: Keyspace,
    kind_call: Option<&'static str>,
    kind_pcall: Option<&'static str>,
}

fn judge_variant(
    name: &str,
    accepted: bool,
    direct: &RespValue,
    lua: &RespValue,
    ks_d: &Keyspace,
    ks_l: &Keyspace,
    is_pcall: bool,
) -> Option<&'static str> {
    let k = match (err_text(direct), err_text(lua)) {
        (None, None) => (canon(name, &conv(direct)) != canon(name, lua)).then_some("different-reply"),
        (None, Some(_)) => Some("lua-rejects"),
        (Some(_), None) => Some("lua-accepts"),
        (Some(d), Some(l)) => {
            if !accepted {
                None // rejected by the parsers: only "is an error" is demanded of the Lua path
            } else if is_pcall {
                (d != l).then_some("lua-rejects")
            } else {
                (!l.contains(&d)).then_some("lua-rejects")
            }
        }
    };
    if k.is_some() {
        return k;
    }
    dump::diff(ks_d, ks_l).map(|_| "different-keyspace")
}

struct Twin {
    seed: Vec<Argv>,
    d: CommandExecutor,
    c: CommandExecutor,
    p: CommandExecutor,
    base: Keyspace,
}

impl Twin {
    fn new(seed: &[Argv]) -> Twin {
        let mut d = build(seed);
        let base = snapshot(&mut d);
        Twin { seed: seed.to_vec(), d, c: build(seed), p: build(seed), base }
    }

    /// Run one command through the three paths; executors are rebuilt afterwards when changed.
    /// Returns None when the two parsers disagree about the frame (part (a) reports that).
    fn run(&mut self, inst: &Argv) -> Option<LuaCase> {
        let (c, p) = (eval_argv(SCRIPT_CALL, inst), eval_argv(SCRIPT_PCALL, inst));
        self.run_with(inst, &c, &p, true)
    }

    /// `inst` sent directly vs the two given EVAL invocations.
    fn run_with(&mut self, inst: &Argv, call_argv: &Argv, pcall_argv: &Argv, guarded: bool) -> Option<LuaCase> {
        let f = frame_of(inst);
        let (pa, pb) = (parse_a(&f), parse_b(&f));
        let accepted = match (&pa, &pb) {
            (Out::Ok(x), Out::Ok(y)) if x == y => true,
            (Out::Err(_), Out::Err(_)) => false,
            _ => return None,
        };
        let name = String::from_utf8_lossy(&inst[0]).to_uppercase();
        let direct = if accepted {
            exec_argv(&mut self.d, inst)
        } else {
            match pa {
                Out::Err(e) => RespValue::Error(e.into()),
                _ => unreachable!(),
            }
        };
        let call = exec_argv(&mut self.c, call_argv);
        let pcall = exec_argv(&mut self.p, pcall_argv);
        let ks_direct = snapshot(&mut self.d);
        let ks_call = snapshot(&mut self.c);
        let ks_pcall = snapshot(&mut self.p);
        let mut kind_call = judge_variant(&name, accepted, &direct, &call, &ks_direct, &ks_call, false);
        let mut kind_pcall = judge_variant(&name, accepted, &direct, &pcall, &ks_direct, &ks_pcall, true);
        // where all three paths answer with an error (and left the keyspace alone): redis.call must have RAISED it
        // (a script does not run past a failing redis.call), redis.pcall must have RETURNED it
        if guarded && kind_call.is_none() && kind_pcall.is_none() && resp::is_err(&direct) && resp::is_err(&call) && resp::is_err(&pcall) && ks_call == self.base && ks_pcall == self.base {
            let raised = |v: &RespValue| err_text(v).map(|e| e.contains("RAISED")).unwrap_or(false);
            if !raised(&exec_argv(&mut self.c, &eval_argv(SCRIPT_CALL_GUARDED, inst))) {
                kind_call = Some("call-does-not-raise");
            }
            if raised(&exec_argv(&mut self.p, &eval_argv(SCRIPT_PCALL_GUARDED, inst))) {
                kind_pcall = Some("pcall-raises");
            }
        }
        if ks_direct != self.base {
            self.d = build(&self.seed);
        }
        if ks_call != self.base {
            self.c = build(&self.seed);
        }
        if ks_pcall != self.base {
            self.p = build(&self.seed);
        }
        Some(LuaCase { direct_accepted: accepted, direct, call, pcall, ks_direct, ks_call, ks_pcall, kind_call, kind_pcall })
    }
}

fn reply_class(v: &RespValue, toks: &[String]) -> String {
    match v {
        RespValue::Error(e) => {
            // strip the wrapper the script engine puts around a raised error
            let line = e.lines().next().unwrap_or("");
            let line = line.strip_prefix("ERR runtime error: ").unwrap_or(line);
            format!("err:{}", normalize_msg(line, toks))
        }
        other => resp::kind(other),
    }
}

fn kind_string(c: &LuaCase) -> Option<String> {
    match (c.kind_call, c.kind_pcall) {
        (None, None) => None,
        (Some(a), Some(b)) if a == b => Some(a.to_string()),
        (Some(a), None) => Some(format!("call-only:{a}")),
        (None, Some(b)) => Some(format!("pcall-only:{b}")),
        (Some(a), Some(b)) => Some(format!("call:{a}/pcall:{b}")),
    }
}

fn is_missing_reply(v: &RespValue) -> bool {
    match v {
        RespValue::Error(e) => {
            let l = e.to_lowercase();
            l.contains("unknown") && l.contains("command") && l.contains("lua")
        }
        _ => false,
    }
}

/// Class of a Lua-path case on a fixed state; None = no violation.
fn eval_b(seed: &[Argv], f: &Frame) -> Option<(String, String, String)> {
    let inst: Argv = f
        .iter()
        .map(|e| match e {
            El::B(b) => Some(b.clone()),
            _ => None,
        })
        .collect::<Option<Vec<_>>>()?;
    if inst.is_empty() {
        return None;
    }
    let mut tw = Twin::new(seed);
    let c = tw.run(&inst)?;
    let k = kind_string(&c)?;
    let toks = frame_tokens_upper(f);
    // the class of a case: its kind plus the class of the error (if any) the Lua path produced
    let ec = |v: &RespValue| if resp::is_err(v) { reply_class(v, &toks) } else { String::new() };
    Some((k, ec(&c.call), ec(&c.pcall)))
}

fn lua_detail(label: &str, seed: &[Argv], inst: &Argv, found: &Argv, c: &LuaCase) -> String {
    let ks = |k: &Keyspace| dump::show_keyspace(k);
    format!(
        "state {label} [{}]: `{}` (minimal core of `{}`) direct{} -> {} ; via redis.call -> {} ; via redis.pcall -> {} ; keyspace direct {{{}}} call {{{}}} pcall {{{}}}",
        seed.iter().map(resp::show_argv).collect::<Vec<_>>().join("; "),
        resp::show_argv(inst),
        resp::show_argv(found),
        if c.direct_accepted { "" } else { " (rejected by both parsers)" },
        trunc(&resp::show(&c.direct)),
        trunc(resp::show(&c.call).lines().next().unwrap_or("")),
        trunc(resp::show(&c.pcall).lines().next().unwrap_or("")),
        ks(&c.ks_direct),
        ks(&c.ks_call),
        ks(&c.ks_pcall)
    )
}

/// Signature, detail, replay of a violating Lua case (reduced on its state), else None.
type BClass = Option<(String, String, String)>;

fn judge_b(
    label: &str,
    seed: &[Argv],
    inst: &Argv,
    keywords: &BTreeSet<String>,
    cache: &std::cell::RefCell<std::collections::HashMap<Frame, BClass>>,
) -> Option<(String, String, Value)> {
    let f = frame_of(inst);
    // the class of a frame on this state is a pure function of the frame: memoised per state
    let ev = |x: &Frame| -> BClass {
        if let Some(r) = cache.borrow().get(x) {
            return r.clone();
        }
        let r = eval_b(seed, x);
        cache.borrow_mut().insert(x.clone(), r.clone());
        r
    };
    ev(&f)?;
    let core = reduce(&f, &ev);
    let core_argv: Argv = core
        .iter()
        .map(|e| match e {
            El::B(b) => b.clone(),
            _ => Vec::new(),
        })
        .collect();
    let mut tw = Twin::new(seed);
    let c = tw.run(&core_argv)?;
    let kind = kind_string(&c)?;
    let sig = format!("lua-drift {} {} {}", name_of(&core), shape_of(&core, keywords), kind);
    let detail = lua_detail(label, seed, &core_argv, inst, &c);
    let replay = json!({
        "part": "b",
        "state": label,
        "seed_ops": seed.iter().map(resp::argv_json).collect::<Vec<_>>(),
        "command": resp::argv_json(&core_argv),
        "found_as": resp::argv_json(inst),
    });
    Some((sig, detail, replay))
}

#[derive(Default)]
struct BStats {
    cases: u64,
    compared_accepted: u64,
    compared_rejected: u64,
    parser_disagree_skipped: u64,
    direct_ok: u64,
    direct_err: u64,
    keyspace_changed: u64,
    violating: u64,
    reply_kinds: BTreeSet<String>,
    viol: BTreeMap<String, (String, Value, u64)>,
}

// ---------------------------------------------------------------------------------------------
// part (c): Lua NUMBERS as command arguments
// ---------------------------------------------------------------------------------------------

/// (Lua expression, the decimal numeral a client sends for that value when it sends the command directly).
const LUA_NUMBERS: &[(&str, &str)] = &[
    // Lua integers: the numeral is exact
    ("0", "0"), ("1", "1"), ("-1", "-1"), ("100", "100"), ("9223372036854775807", "9223372036854775807"), ("math.maxinteger", "9223372036854775807"), ("math.mininteger", "-9223372036854775808"),
    // integer-valued floats up to 2^53: every convention that keeps the value writes the same digits
    ("3.0", "3"), ("1e3", "1000"), ("10/2", "5"), ("100.0", "100"), ("2^53", "9007199254740992"), ("2^53+1.0", "9007199254740992"),
    // floats beyond 2^53 (no exact i64 reading exists for most of them): the shortest decimal that reads back as the
    // same double, written without exponent. An integer command must reject it or use exactly this integer.
    ("2^63", "9223372036854776000"), ("-2^63", "-9223372036854776000"), ("9223372036854775808", "9223372036854776000"), ("math.maxinteger+1.0", "9223372036854776000"),
    ("2^64", "18446744073709552000"), ("1e19", "10000000000000000000"), ("-1e19", "-10000000000000000000"),
    // short binary fractions
    ("0.5", "0.5"), ("1.5", "1.5"), ("-2.25", "-2.25"),
];

/// Command templates with one numeric position `#` (key k1, state dependent).
const NUM_TEMPLATES: &[&str] = &[
    "SET k1 #", "APPEND k1 #", "INCRBY k1 #", "DECRBY k1 #", "INCRBYFLOAT k1 #", "EXPIRE k1 #", "PEXPIRE k1 #", "SETEX k1 # v", "GETRANGE k1 0 #", "LINDEX k1 #",
    "LRANGE k1 0 #", "LPUSH k1 #", "HSET k1 f #", "HINCRBY k1 a #", "ZADD k1 # m", "ZINCRBY k1 # a", "SADD k1 #", "ZRANGEBYSCORE k1 # 100", "LTRIM k1 0 #",
];

fn numeric_case(template: &str, lua_expr: &str, numeral: &str) -> (Argv, Argv, Argv) {
    let toks: Vec<&str> = template.split(' ').collect();
    let direct: Argv = toks.iter().map(|t| if *t == "#" { numeral.as_bytes().to_vec() } else { t.as_bytes().to_vec() }).collect();
    // script: the key comes through KEYS[1], words as Lua strings, the number as a Lua expression
    let args: Vec<String> = toks
        .iter()
        .enumerate()
        .map(|(i, t)| if *t == "#" { format!("({lua_expr})") } else if i == 1 { "KEYS[1]".to_string() } else { format!("'{t}'") })
        .collect();
    let mk = |f: &str| -> Argv { vec![b"EVAL".to_vec(), format!("return redis.{f}({})", args.join(",")).into_bytes(), b"1".to_vec(), b"k1".to_vec()] };
    (direct, mk("call"), mk("pcall"))
}

// ---------------------------------------------------------------------------------------------
// part (d): one script cannot see what an earlier script left in the interpreter
// ---------------------------------------------------------------------------------------------

/// scripts that leave something behind in the Lua state (none of them touches the keyspace)
const POLLUTERS: &[(&str, &str)] = &[
    ("global", "g = 41 return 1"),
    ("global-from-argv", "base = 7 return base"),
    ("library-table", "string.x = 5 return 1"),
    ("library-function", "table.foo = function() return 7 end return 1"),
    ("redis-table", "redis.helper = 1 return 1"),
    ("global-metatable", "pcall(function() setmetatable(_G, {__index = function() return 99 end}) end) return 1"),
    ("rng-state", "math.randomseed(7) return 1"),
    ("keys-argv", "KEYS = {'x'} ARGV = {'y'} return 1"),
];
const PROBES: &[&str] = &[
    "return tostring(g)",
    "return tostring(base)",
    "if v then base = tonumber(v) end return tostring(base or 0)",
    "return tostring(string.x)",
    "return type(table.foo)",
    "return tostring(redis.helper)",
    "return tostring(some_undefined_name)",
    "return tostring(#KEYS) .. ':' .. tostring(#ARGV)",
];

/// Err((signature, detail)) when the probe answers differently after the polluter than on a fresh executor.
fn isolation_case(pi: usize, qi: usize) -> Result<(), (String, String)> {
    let eval = |script: &str| -> Argv { vec![b"EVAL".to_vec(), script.as_bytes().to_vec(), b"0".to_vec()] };
    let mut fresh = CommandExecutor::new();
    let want = resp::show(&exec_argv(&mut fresh, &eval(PROBES[qi])));
    let mut used = CommandExecutor::new();
    let _ = exec_argv(&mut used, &eval(POLLUTERS[pi].1));
    // a second executor on the same thread too (another shard, another client)
    let mut other = CommandExecutor::new();
    for (who, ex) in [("the same executor", &mut used), ("another executor of the same thread", &mut other)] {
        let got = resp::show(&exec_argv(ex, &eval(PROBES[qi])));
        if got != want {
            return Err((
                format!("lua-isolation: a script sees what an earlier script left behind ({})", POLLUTERS[pi].0),
                format!("EVAL \"{}\" 0 ran first; then EVAL \"{}\" 0 on {who} replies {got}; on a fresh executor it replies {want}", POLLUTERS[pi].1, PROBES[qi]),
            ));
        }
    }
    Ok(())
}

// ---------------------------------------------------------------------------------------------
// main
// ---------------------------------------------------------------------------------------------

fn replay(path: &std::path::Path, keywords: &BTreeSet<String>) -> ! {
    let r = vh::report::load_replay(path);
    let part = r["part"].as_str().unwrap_or("a").to_string();
    let violated = match part.as_str() {
        "d" => match isolation_case(r["polluter"].as_u64().unwrap_or(0) as usize, r["probe"].as_u64().unwrap_or(0) as usize) {
            Err((sig, detail)) => {
                println!("{detail}");
                println!("signature: {sig}");
                true
            }
            Ok(()) => false,
        },
        "a" => {
            let f = frame_from_json(&r["frame"]);
            println!("frame: {}", show_frame(&f));
            println!("from_resp           -> {}", show_out(&parse_a(&f)));
            println!("from_resp_zero_copy -> {}", show_out(&parse_b(&f)));
            match judge_a(&f, keywords) {
                Some((sig, detail, _)) => {
                    println!("{detail}");
                    println!("signature: {sig}");
                    true
                }
                None => false,
            }
        }
        "missing" | "b" => {
            let seed: Vec<Argv> = r["seed_ops"].as_array().map(|a| a.iter().map(resp::argv_from_json).collect()).unwrap_or_default();
            let inst = resp::argv_from_json(&r["command"]);
            let label = r["state"].as_str().unwrap_or("?").to_string();
            let mut tw = Twin::new(&seed);
            println!("state: {}", dump::show_keyspace(&tw.base));
            match tw.run(&inst) {
                None => {
                    println!("the two parsers disagree on this frame (see part a)");
                    false
                }
                Some(c) => {
                    println!("{}", lua_detail(&label, &seed, &inst, &inst, &c));
                    match kind_string(&c) {
                        Some(k) => {
                            println!("kind: {k}");
                            true
                        }
                        None => false,
                    }
                }
            }
        }
        "c" => {
            let seed: Vec<Argv> = r["seed_ops"].as_array().map(|a| a.iter().map(resp::argv_from_json).collect()).unwrap_or_default();
            let (direct, call, pcall) = numeric_case(r["template"].as_str().unwrap(), r["lua_expr"].as_str().unwrap(), r["numeral"].as_str().unwrap());
            let mut tw = Twin::new(&seed);
            match tw.run_with(&direct, &call, &pcall, false) {
                None => false,
                Some(c) => {
                    println!("{}", lua_detail(r["state"].as_str().unwrap_or("?"), &seed, &direct, &direct, &c));
                    kind_string(&c).is_some()
                }
            }
        }
        other => {
            eprintln!("unknown replay part {other}");
            std::process::exit(2);
        }
    };
    if violated {
        println!("VIOLATION property=C16 replay={}", path.display());
        std::process::exit(1);
    }
    println!("replay: no violation");
    std::process::exit(0);
}

fn main() {
    let args = cli::parse_args();
    vh::quiet_panics();
    let alpha = match build_alphabet() {
        Ok(a) => a,
        Err(e) => {
            eprintln!("MACHINERY-FAILURE property=C16 {e}");
            std::process::exit(2);
        }
    };
    // token classes: a token is rendered as a keyword when it is an upper-case literal of a source
    let keywords = alpha.keywords.clone();
    if let Some(path) = &args.replay {
        replay(path, &keywords);
    }
    let rep = Reporter::new("C16", "exploration", &args);
    let thorough = args.tier == Tier::Thorough;
    let timing = |what: &str| {
        if std::env::var("VERIF_SHOW_TIMING").is_ok() {
            eprintln!("[c16] {:>7.1}s {what}", rep.elapsed_s());
        }
    };

    // ---------------------------------------------------------------- (a) parser differential
    let generic = generic_tokens();
    let kw_upper: Vec<Vec<u8>> = keywords.iter().map(|k| k.as_bytes().to_vec()).collect();
    let kw_lower: Vec<Vec<u8>> = keywords.iter().map(|k| k.to_lowercase().into_bytes()).collect();
    // pool for arity <= 2: generic + keywords in upper and lower case; arity 3: generic + upper
    let mut pool3: Vec<Vec<u8>> = generic.clone();
    pool3.extend(kw_upper.iter().cloned());
    let mut pool2: Vec<Vec<u8>> = pool3.clone();
    pool2.extend(kw_lower.iter().cloned());
    let max_arity: usize = if thorough { 3 } else { 2 };

    let mut name_variants: Vec<Vec<u8>> = Vec::new();
    for n in &alpha.names {
        name_variants.extend(case_variants(n));
    }
    name_variants.push(Vec::new());
    name_variants.push(b"\xffGET".to_vec());
    name_variants.push("\u{e9}cho".as_bytes().to_vec()); // unknown to every parser: the error text names it the same way
    let name_set: BTreeSet<Vec<u8>> = name_variants.iter().cloned().collect();
    let pool2_set: BTreeSet<Vec<u8>> = pool2.iter().cloned().collect();

    // a1: arity sweep, one work item per (name variant, first argument or none)
    let mut items: Vec<(usize, Option<usize>)> = Vec::new();
    for ni in 0..name_variants.len() {
        items.push((ni, None));
        for t in 0..pool2.len() {
            items.push((ni, Some(t)));
        }
    }
    let sweep = par::par_map(&items, |_, (ni, first)| {
        let mut st = AStats::default();
        let name = El::B(name_variants[*ni].clone());
        match first {
            None => eval_frame_a(&vec![name], &keywords, &mut st, true),
            Some(t) => {
                let t0 = El::B(pool2[*t].clone());
                eval_frame_a(&vec![name.clone(), t0.clone()], &keywords, &mut st, true);
                for u in &pool2 {
                    eval_frame_a(&vec![name.clone(), t0.clone(), El::B(u.clone())], &keywords, &mut st, true);
                }
                if max_arity >= 3 {
                    for u in &pool2 {
                        for v in &pool2 {
                            let f = vec![name.clone(), t0.clone(), El::B(u.clone()), El::B(v.clone())];
                            eval_frame_a(&f, &keywords, &mut st, true);
                        }
                    }
                }
            }
        }
        st
    });
    let mut a_sweep = AStats::default();
    for s in sweep {
        a_sweep.merge(s);
    }

    timing("a1 sweep done");
    // a2: per-command deep sweep over the literals of the command's own arm(s) + {k1,1,-1,zz}:
    // quick arity 3..=4 (the arity-3 full sweep is thorough only), thorough arity 4..=6, each capped
    // by the size of pool^arity
    let mut a_deep = AStats::default();
    let mut deep_desc: Vec<String> = Vec::new();
    let mut deep_space: BTreeMap<Vec<u8>, (BTreeSet<Vec<u8>>, usize, usize)> = BTreeMap::new();
    {
        let (lo, hi, cap) = if thorough { (4usize, 6usize, 8_000_000usize) } else { (3usize, 4usize, 200_000usize) };
        let mut deep_items: Vec<(Vec<u8>, Vec<Vec<u8>>, usize, usize, Vec<u8>)> = Vec::new();
        for n in &alpha.names {
            let mut p: Vec<Vec<u8>> = ["k1", "1", "-1", "zz"].iter().map(|s| s.as_bytes().to_vec()).collect();
            if let Some(k) = alpha.per_cmd.get(n) {
                p.extend(k.iter().map(|s| s.as_bytes().to_vec()));
            }
            let mut max = lo;
            while max < hi && p.len().pow(max as u32 + 1) <= cap {
                max += 1;
            }
            deep_desc.push(format!("{n}:{}^{lo}..{max}", p.len()));
            deep_space.insert(n.as_bytes().to_vec(), (p.iter().cloned().collect(), lo, max));
            for first in &p {
                deep_items.push((n.as_bytes().to_vec(), p.clone(), lo, max, first.clone()));
            }
        }
        let res = par::par_map(&deep_items, |_, (name, pool, lo, max, first)| {
            let mut st = AStats::default();
            for arity in *lo..=*max {
                let rest = (arity - 1) as u32;
                let total = pool.len().pow(rest);
                for k in 0..total {
                    let mut f: Frame = Vec::with_capacity(arity + 1);
                    f.push(El::B(name.clone()));
                    f.push(El::B(first.clone()));
                    let mut x = k;
                    for _ in 0..rest {
                        f.push(El::B(pool[x % pool.len()].clone()));
                        x /= pool.len();
                    }
                    eval_frame_a(&f, &keywords, &mut st, true);
                }
            }
            st
        });
        for s in res {
            a_deep.merge(s);
        }
    }

    timing("a2 deep done");
    // a3: template instances (Rich), as generated and with every token lower-cased
    let rich = cmdgen::all_instances(Profile::Rich);
    let in_sweep = |a: &Argv| -> bool {
        let arity = a.len() - 1;
        if !name_set.contains(&a[0]) {
            return false;
        }
        if arity <= max_arity && a[1..].iter().all(|t| pool2_set.contains(t)) {
            return true;
        }
        match deep_space.get(&a[0]) {
            Some((p, lo, hi)) => arity >= *lo && arity <= *hi && a[1..].iter().all(|t| p.contains(t)),
            None => false,
        }
    };
    let chunks: Vec<&[Argv]> = rich.chunks(4096).collect();
    let res = par::par_map(&chunks, |_, chunk| {
        let mut st = AStats::default();
        for a in chunk.iter() {
            eval_frame_a(&frame_of(a), &keywords, &mut st, !in_sweep(a));
            let low: Argv = a.iter().map(|t| t.to_ascii_lowercase()).collect();
            if low != *a {
                eval_frame_a(&frame_of(&low), &keywords, &mut st, !in_sweep(&low));
            }
        }
        st
    });
    let mut a_inst = AStats::default();
    for s in res {
        a_inst.merge(s);
    }

    timing("a3 instances done");
    // a4: non-bulk elements at every position (incl. the name) of template instances
    let base_instances: Vec<Argv> = if thorough {
        cmdgen::all_instances(Profile::Small)
    } else {
        let mut v = Vec::new();
        for t in cmdgen::TEMPLATES {
            let e = cmdgen::expand(t, Profile::Small);
            if let Some(f) = e.first() {
                v.push(f.clone());
            }
            if let Some(l) = e.last() {
                v.push(l.clone());
            }
        }
        v.sort();
        v.dedup();
        v
    };
    let nonbulk = [
        El::I(1),
        El::I(-1),
        El::Nil,
        El::NilArr,
        El::Arr(vec![]),
        El::Arr(vec![El::B(b"k1".to_vec())]),
        El::Simple("OK".into()),
    ];
    let chunks: Vec<&[Argv]> = base_instances.chunks(256).collect();
    let res = par::par_map(&chunks, |_, chunk| {
        let mut st = AStats::default();
        for a in chunk.iter() {
            let f = frame_of(a);
            for pos in 0..f.len() {
                for nb in &nonbulk {
                    let mut g = f.clone();
                    g[pos] = nb.clone();
                    eval_frame_a(&g, &keywords, &mut st, true);
                }
            }
        }
        st
    });
    let mut a_nonbulk = AStats::default();
    for s in res {
        a_nonbulk.merge(s);
    }
    // frames that are not arrays of >= 1 element at all
    {
        let mut st = AStats::default();
        eval_frame_a(&vec![], &keywords, &mut st, true);
        a_nonbulk.merge(st);
    }

    timing("a4 nonbulk done");
    let mut a_total = AStats::default();
    let (c_sweep, c_deep, c_inst, c_nonbulk) = (a_sweep.frames, a_deep.frames, a_inst.frames, a_nonbulk.frames);
    for s in [a_sweep, a_deep, a_inst, a_nonbulk] {
        a_total.merge(s);
    }
    for (sig, (detail, replay, count)) in &a_total.viol {
        rep.violation(sig.clone(), format!("{detail} [{count} frames reduce to this signature]"), replay.clone());
    }

    // ---------------------------------------------------------------- (b) Lua entry path
    let small = cmdgen::all_instances(Profile::Small);
    let mut by_name: BTreeMap<String, Vec<Argv>> = BTreeMap::new();
    let mut b_names: BTreeSet<String> = alpha.names.iter().cloned().collect();
    b_names.extend(alpha.lua_arms.iter().cloned());
    for n in NOT_DATA {
        b_names.remove(*n);
    }
    for n in &b_names {
        let mut v: Vec<Argv> = Vec::new();
        for tail in ["", "k1", "k1 a", "k1 a b", "k1 1", "k1 1 1", "k1 0 -1", "k1 k2", "k1 a 1"] {
            v.push(resp::line(&format!("{n} {tail}")));
        }
        by_name.insert(n.clone(), v);
    }
    for a in &small {
        let n = String::from_utf8_lossy(&a[0]).to_uppercase();
        if let Some(v) = by_name.get_mut(&n) {
            v.push(a.clone());
        }
    }
    for v in by_name.values_mut() {
        v.sort();
        v.dedup();
    }
    let state_list = states(thorough);

    // b1: which names does the Lua path know at all?  (probe: first frame that both parsers accept
    // as a real command and that executes directly without error, in state order)
    let name_list: Vec<String> = by_name.keys().cloned().collect();
    let probes = par::par_map(&name_list, |_, n| {
        let frames = &by_name[n];
        let mut fallback: Option<(usize, Argv)> = None;
        let mut chosen: Option<(usize, Argv)> = None;
        'find: for (si, (_, seed)) in state_list.iter().enumerate() {
            let mut ex = build(seed);
            let base = snapshot(&mut ex);
            for a in frames {
                let f = frame_of(a);
                let ok = matches!((parse_a(&f), parse_b(&f)), (Out::Ok(x), Out::Ok(y)) if x == y && variant_of(&x) != "Unknown");
                if !ok {
                    continue;
                }
                if fallback.is_none() {
                    fallback = Some((si, a.clone()));
                }
                let r = exec_argv(&mut ex, a);
                let is_err = resp::is_err(&r);
                if snapshot(&mut ex) != base {
                    ex = build(seed);
                }
                if !is_err {
                    chosen = Some((si, a.clone()));
                    break 'find;
                }
            }
        }
        let (si, a) = match chosen.or(fallback) {
            Some(x) => x,
            None => return (n.clone(), "not-dispatchable".to_string(), None),
        };
        let mut tw = Twin::new(&state_list[si].1);
        match tw.run(&a) {
            Some(c) => {
                let lua_fails = resp::is_err(&c.pcall) && resp::is_err(&c.call);
                let missing = (is_missing_reply(&c.pcall) && is_missing_reply(&c.call))
                    || (!alpha.lua_arms.contains(n) && lua_fails && !resp::is_err(&c.direct));
                if missing {
                    (n.clone(), "missing".to_string(), Some((si, a, c)))
                } else {
                    (n.clone(), "known".to_string(), None)
                }
            }
            None => (n.clone(), "not-dispatchable".to_string(), None),
        }
    });
    let mut known: Vec<String> = Vec::new();
    let mut missing: Vec<String> = Vec::new();
    let mut undisp: Vec<String> = Vec::new();
    for (n, status, info) in probes {
        match status.as_str() {
            "known" => known.push(n),
            "missing" => {
                if let Some((si, a, c)) = info {
                    let (label, seed) = &state_list[si];
                    rep.violation(
                        format!("lua-missing:{n}"),
                        format!("redis.call/pcall cannot invoke {n} at all: {}", lua_detail(label, seed, &a, &a, &c)),
                        json!({
                            "part": "missing",
                            "state": label,
                            "seed_ops": seed.iter().map(resp::argv_json).collect::<Vec<_>>(),
                            "command": resp::argv_json(&a),
                        }),
                    );
                }
                missing.push(n);
            }
            _ => undisp.push(n),
        }
    }

    timing("b1 probes done");
    // b2: every (state, frame) of the known names (thorough: Rich template instances as well)
    if thorough {
        for a in &rich {
            let n = String::from_utf8_lossy(&a[0]).to_uppercase();
            if known.contains(&n) {
                if let Some(v) = by_name.get_mut(&n) {
                    v.push(a.clone());
                }
            }
        }
        for v in by_name.values_mut() {
            v.sort();
            v.dedup();
        }
    }
    timing(&format!("b2 frames: {}", known.iter().map(|n| by_name[n].len()).sum::<usize>()));
    let mut b_items: Vec<(usize, String)> = Vec::new();
    for si in 0..state_list.len() {
        for n in &known {
            b_items.push((si, n.clone()));
        }
    }
    let res = par::par_map(&b_items, |_, (si, n)| {
        let (label, seed) = &state_list[*si];
        let mut st = BStats::default();
        let cache = std::cell::RefCell::new(std::collections::HashMap::new());
        let mut tw = Twin::new(seed);
        for a in &by_name[n] {
            st.cases += 1;
            let c = match tw.run(a) {
                Some(c) => c,
                None => {
                    st.parser_disagree_skipped += 1;
                    continue;
                }
            };
            if c.direct_accepted {
                st.compared_accepted += 1;
                if resp::is_err(&c.direct) {
                    st.direct_err += 1;
                } else {
                    st.direct_ok += 1;
                }
            } else {
                st.compared_rejected += 1;
            }
            if c.ks_direct != tw.base {
                st.keyspace_changed += 1;
            }
            st.reply_kinds.insert(format!("{n}:{}", resp::kind(&c.direct)));
            if kind_string(&c).is_some() {
                st.violating += 1;
                if let Some((sig, detail, replay)) = judge_b(label, seed, a, &keywords, &cache) {
                    match st.viol.get_mut(&sig) {
                        Some(e) => e.2 += 1,
                        None => {
                            st.viol.insert(sig, (detail, replay, 1));
                        }
                    }
                }
            }
        }
        st
    });
    let mut b = BStats::default();
    for s in res {
        b.cases += s.cases;
        b.compared_accepted += s.compared_accepted;
        b.compared_rejected += s.compared_rejected;
        b.parser_disagree_skipped += s.parser_disagree_skipped;
        b.direct_ok += s.direct_ok;
        b.direct_err += s.direct_err;
        b.keyspace_changed += s.keyspace_changed;
        b.violating += s.violating;
        b.reply_kinds.extend(s.reply_kinds);
        for (k, (d, r, c)) in s.viol {
            match b.viol.get_mut(&k) {
                Some(e) => e.2 += c,
                None => {
                    b.viol.insert(k, (d, r, c));
                }
            }
        }
    }
    for (sig, (detail, replay, count)) in &b.viol {
        rep.violation(sig.clone(), format!("{detail} [{count} (state, frame) cases reduce to this signature]"), replay.clone());
    }

    timing("b2 done");
    // ---------------------------------------------------------------- part (c): Lua numbers as arguments
    // only commands the Lua path knows (the others are reported individually as lua-missing:<NAME>)
    let c_templates: Vec<usize> = (0..NUM_TEMPLATES.len()).filter(|t| known.iter().any(|k| k == NUM_TEMPLATES[*t].split(' ').next().unwrap())).collect();
    let c_items: Vec<(usize, usize, usize)> = (0..state_list.len())
        .flat_map(|s| c_templates.iter().flat_map(move |t| (0..LUA_NUMBERS.len()).map(move |n| (s, *t, n))))
        .collect();
    let c_results: Vec<Option<(String, String, Value)>> = par::par_map(&c_items, |_, (si, ti, ni)| {
        let (label, seed) = &state_list[*si];
        let (expr, numeral) = LUA_NUMBERS[*ni];
        let (direct, call, pcall) = numeric_case(NUM_TEMPLATES[*ti], expr, numeral);
        let mut tw = Twin::new(seed);
        let c = tw.run_with(&direct, &call, &pcall, false)?;
        let kind = kind_string(&c)?;
        let name = NUM_TEMPLATES[*ti].split(' ').next().unwrap();
        let class = if numeral.contains('.') { "fraction" } else if numeral.trim_start_matches('-').len() >= 19 { "integer-near-or-beyond-i64" } else { "integer" };
        Some((
            format!("lua-number-arg {name} {class} {kind}"),
            format!("state {label}: `{}` sent directly vs EVAL \"{}\" 1 k1 (Lua number {expr} = {numeral}): {}", resp::show_argv(&direct), String::from_utf8_lossy(&call[1]), lua_detail(label, seed, &direct, &direct, &c)),
            json!({"part": "c", "state": label, "seed_ops": seed.iter().map(resp::argv_json).collect::<Vec<_>>(), "template": NUM_TEMPLATES[*ti], "lua_expr": expr, "numeral": numeral}),
        ))
    });
    let c_cases = c_results.len() as u64;
    let mut c_viol: BTreeMap<String, (String, Value, u64)> = BTreeMap::new();
    for r in c_results.into_iter().flatten() {
        match c_viol.get_mut(&r.0) {
            Some(e) => e.2 += 1,
            None => {
                c_viol.insert(r.0, (r.1, r.2, 1));
            }
        }
    }
    for (sig, (detail, replay, count)) in &c_viol {
        rep.violation(sig.clone(), format!("{detail} [{count} (state, template, number) cases have this signature]"), replay.clone());
    }
    timing("c done");
    // ---------------------------------------------------------------- part (d): script isolation
    let mut d_cases = 0u64;
    {
        let mut seen = BTreeSet::new();
        for pi in 0..POLLUTERS.len() {
            for qi in 0..PROBES.len() {
                d_cases += 1;
                if let Err((sig, detail)) = std::panic::catch_unwind(|| isolation_case(pi, qi)).unwrap_or_else(|p| Err(("lua-isolation: panic".to_string(), vh::panic_text(&p)))) {
                    if seen.insert(sig.clone()) {
                        rep.violation(sig, detail, json!({"part": "d", "polluter": pi, "probe": qi}));
                    }
                }
            }
        }
    }
    // ---------------------------------------------------------------- evidence
    if known.is_empty() {
        rep.machinery_failure("the Lua path knows no data command at all — probe logic or source layout changed");
    }
    let samples = json!([
        { "part": "a", "frame": show_frame(&vec![El::B(name_variants[0].clone()), El::B(pool2[0].clone()), El::B(pool2[pool2.len() - 1].clone())]) },
        { "part": "a", "frame": show_frame(&frame_of(&rich[rich.len() / 2])) },
        { "part": "a", "frame": show_frame(&{ let mut f = frame_of(&base_instances[base_instances.len() / 3]); let l = f.len() - 1; f[l] = El::Nil; f }) },
        { "part": "b", "state": state_list[3].0, "direct": resp::show_argv(&by_name[&known[0]][by_name[&known[0]].len() / 2]),
          "lua": format!("EVAL \"{SCRIPT_CALL}\" 0 {}", resp::show_argv(&by_name[&known[0]][by_name[&known[0]].len() / 2])) },
    ]);
    let evaluations = a_total.frames + b.compared_accepted + b.compared_rejected + c_cases;
    let coverage = json!({
        "evaluations": evaluations,
        "distinct_nontrivial": a_total.nontrivial + b.compared_accepted,
        "rule": "part (a): every frame [name, args…] with name ∈ (top-level match-arm literals of parser.rs ∪ commands.rs ∪ the Lua translator ∪ template names ∪ {ZZUNKNOWN, empty, non-UTF-8}) in upper/lower/mixed case and args ∈ pool^n for n ≤ 2 (pool = generic tokens + every upper-case literal of the sources in upper and lower case) and, thorough, n = 3 over generic + upper-case literals and n = 4..5 over the literals of the command's own arm + {k1,1,-1,zz}; plus every Rich template instance as generated and lower-cased; plus template instances with a non-bulk element (integer, nil bulk, nil array, empty/nested array, simple string) substituted at every position. Each frame is given to both parsers; counted frames are distinct (template instances that already lie in the sweep space are evaluated but not counted). A frame is non-trivial when at least one parser dispatches it to a grammar arm, i.e. the outcome is not Ok(Unknown(..)) on both sides. part (b): every (state, frame) with state ∈ the 9 listed keyspace states and frame ∈ Small template instances + generic arity probes of every data command the Lua path knows; non-trivial when both parsers accept the frame, so that reply and keyspace of the direct execution were compared with those of EVAL redis.call and redis.pcall.",
        "exhaustive": true,
        "a_command_names": alpha.names.len(),
        "a_names_extracted_from_parser_rs": alpha.names_from_parser_a,
        "a_names_extracted_from_commands_rs": alpha.names_from_parser_b,
        "a_name_variants": name_variants.len(),
        "a_keywords_extracted": keywords.len(),
        "a_pool": pool2.len(),
        "a_sweep_max_arity": max_arity,
        "a_frames_sweep": c_sweep,
        "a_frames_per_command_deep": c_deep,
        "a_frames_template_instances": c_inst,
        "a_frames_nonbulk": c_nonbulk,
        "a_frames_total": a_total.frames,
        "a_frames_dispatched_to_an_arm": a_total.nontrivial,
        "a_both_ok_identical": a_total.both_ok,
        "a_both_err_identical": a_total.both_err,
        "a_frames_drifting": a_total.drifting,
        "a_distinct_command_variants_reached": a_total.variants.len(),
        "a_distinct_error_classes_seen": a_total.errors.len(),
        "a_drift_signatures": a_total.viol.len(),
        "b_states": state_list.iter().map(|s| s.0).collect::<Vec<_>>(),
        "b_data_command_names": name_list.len(),
        "b_lua_known": known,
        "b_lua_missing": missing,
        "b_not_dispatchable_by_parsers": undisp,
        "b_lua_translator_arms_extracted": alpha.lua_arms.len(),
        "b_cases": b.cases,
        "b_cases_compared_frame_accepted": b.compared_accepted,
        "b_cases_compared_frame_rejected_by_both_parsers": b.compared_rejected,
        "b_cases_skipped_parsers_disagree": b.parser_disagree_skipped,
        "b_direct_reply_ok": b.direct_ok,
        "b_direct_reply_error": b.direct_err,
        "b_cases_where_keyspace_changed": b.keyspace_changed,
        "b_cases_violating": b.violating,
        "b_distinct_command_x_reply_kinds": b.reply_kinds.len(),
        "b_drift_signatures": b.viol.len(),

        "deep_pools": if deep_desc.len() > 12 { json!(format!("{} commands, e.g. {}", deep_desc.len(), deep_desc[..12].join(" "))) } else { json!(deep_desc) },
        "samples": samples,
    });
    let mut coverage = coverage;
    coverage["c_lua_number_argument_cases"] = json!(c_cases);
    coverage["c_signatures"] = json!(c_viol.len());
    rep.finish(
        coverage,
        vec![
            "parser A = Command::from_resp on RespValue, parser B = Command::from_resp_zero_copy on RespValueZeroCopy built from the same element list; equality = identical Debug rendering of the Command or identical error text; a panic of either is a violation".into(),
            "command names and option keywords are read from /repo/src/redis/{parser.rs,commands.rs,executor/script_ops.rs} when the check starts (outermost string-pattern match arms = names, all other upper-case literals = keywords)".into(),
            "RESP->Lua->RESP conversion demanded of the Lua path: status->{ok=}->status, integer<->integer, bulk<->string, nil bulk/nil array->false->nil bulk, array->table->array element-wise, error raised by redis.call -> error reply containing the message, error table from redis.pcall -> error reply with exactly the message; SMEMBERS/HKEYS/HVALS/KEYS/HGETALL compared as multisets".into(),
            "for frames rejected by both parsers only 'the Lua path also fails and changes nothing' is demanded, not the error text".into(),
            "the script uses (unpack or table.unpack) because the embedded Lua is 5.4; executors driven as on the simulation path: set_time(now) then execute; all paths at the same instant".into(),
            format!("part (d): {d_cases} (polluter, probe) pairs: a script that leaves something in the interpreter (a global, a field of a library table, RNG state, KEYS/ARGV) runs first; a probe script must then answer exactly as on a fresh executor, on the same executor and on another executor of the same thread"),
            "part (c): every (state, template, number) over 19 command templates with one numeric position and 22 Lua number expressions (Lua integers, integer-valued floats inside/outside the i64 range, short binary fractions): the script passes the Lua NUMBER, the direct twin sends the decimal numeral of exactly that value; same oracle as part (b)".into(),
            "outside part (b): server/connection/transaction/scripting commands and SPOP/RANDOMKEY (random by specification)".into(),
        ],
    );
}
