//! C18 — anti-entropy: equal digests iff equal states; a digest-driven sync leaves both sides merged.
//!
//! (a) digests: `StateDigest::from_state` / `differs_from` / `divergent_buckets` on maps built from a
//!     reachable set of `ReplicatedValue`s, the same content built through every insertion order,
//!     insert-extra-then-remove / overwrite histories, delta application in every order and
//!     merge(A,B) vs merge(B,A); `HashMap` iteration order (per-instance random hasher) is an
//!     *enumerated* dimension: instances are created until every iteration order of the keys sharing
//!     a bucket has been observed.
//! (b) sync: two `SimulatedNode`s after every pair of write histories (no gossip), per-round limit
//!     and merkle depth varied, `run_anti_entropy_sync` repeated (#keys + 1) times.
use redis_sim::redis::{Command, SDS};
use redis_sim::replication::anti_entropy::{KeyDigest, StateDigest};
use redis_sim::replication::lattice::{LamportClock, LwwRegister, ReplicaId};
use redis_sim::replication::state::{CrdtValue, ReplicatedValue, ReplicationDelta, ShardReplicaState};
use redis_sim::replication::ConsistencyLevel;
use redis_sim::simulator::multi_node::MultiNodeSimulation;
use serde_json::{json, Value};
use std::collections::{BTreeMap, BTreeSet, HashMap};
use std::panic::{catch_unwind, AssertUnwindSafe};
use vh::{cli, par, Reporter, Tier};

// ------------------------------------------------------------------------------------------------
// canonical (iteration-order independent) description of replicated values and states
// ------------------------------------------------------------------------------------------------

fn esc(b: &[u8]) -> String {
    String::from_utf8_lossy(b).to_string()
}

fn canon_clock(c: &LamportClock) -> String {
    format!("{}.r{}", c.time, c.replica_id.0)
}

fn canon_lww(l: &LwwRegister<SDS>) -> String {
    let v = match &l.value {
        Some(s) => format!("'{}'", esc(s.as_bytes())),
        None => "nil".to_string(),
    };
    format!("{}{}@{}", v, if l.tombstone { "†" } else { "" }, canon_clock(&l.timestamp))
}

/// Components of a value: (name, canonical text). Two values are the same replicated state iff all
/// components agree.
fn components(v: &ReplicatedValue) -> Vec<(&'static str, String)> {
    let mut out = Vec::new();
    out.push(("type", v.crdt.type_name().to_string()));
    let (mut value, mut tomb, mut lww_stamp, mut hash_content, mut hash_stamps) = ("none".to_string(), "false".to_string(), String::new(), String::new(), String::new());
    match &v.crdt {
        CrdtValue::Lww(l) => {
            if let Some(s) = l.get() {
                value = format!("'{}'", esc(s.as_bytes()));
            }
            tomb = l.tombstone.to_string();
            lww_stamp = canon_clock(&l.timestamp);
        }
        CrdtValue::Hash(h) => {
            let mut f: Vec<String> = h
                .iter()
                .map(|(k, l)| match l.get() {
                    Some(v) => format!("{}='{}'", k, esc(v.as_bytes())),
                    None => format!("{}={}", k, if l.tombstone { "†" } else { "nil" }),
                })
                .collect();
            f.sort();
            hash_content = f.join(",");
            let mut f: Vec<String> = h.iter().map(|(k, l)| format!("{}={}", k, canon_lww(l))).collect();
            f.sort();
            hash_stamps = f.join(",");
        }
        other => {
            value = format!("{:?}", other);
        }
    }
    out.push(("value", value));
    out.push(("tombstone", tomb));
    out.push(("lww-stamp", lww_stamp));
    out.push(("hash-content", hash_content));
    out.push(("hash-field-stamps", hash_stamps));
    out.push(("expiry", format!("{:?}", v.expiry_ms)));
    out.push(("stamp", canon_clock(&v.timestamp)));
    out.push(("vector-clock", if v.vector_clock.is_some() { format!("{:?}", v.vector_clock) } else { "-".into() }));
    out.push(("rf", format!("{:?}", v.replication_factor)));
    out
}

fn canon_value(v: &ReplicatedValue) -> String {
    let c = components(v);
    let get = |n: &str| c.iter().find(|(k, _)| *k == n).map(|(_, t)| t.clone()).unwrap_or_default();
    let body = match get("type").as_str() {
        "lww" => format!("lww {}{}@{}", get("value"), if get("tombstone") == "true" { "†" } else { "" }, get("lww-stamp")),
        "hash" => format!("hash{{{}}}", get("hash-field-stamps")),
        _ => get("value"),
    };
    let mut s = format!("{} ts={}", body, get("stamp"));
    if v.expiry_ms.is_some() {
        s.push_str(&format!(" exp={}", v.expiry_ms.unwrap()));
    }
    if v.vector_clock.is_some() {
        s.push_str(&format!(" vc={}", get("vector-clock")));
    }
    if v.replication_factor.is_some() {
        s.push_str(&format!(" rf={}", get("rf")));
    }
    s
}

/// Names of the components in which two values differ (empty = same state).
fn diff_components(a: &ReplicatedValue, b: &ReplicatedValue) -> Vec<&'static str> {
    let (ca, cb) = (components(a), components(b));
    ca.iter().zip(cb.iter()).filter(|(x, y)| x.1 != y.1).map(|(x, _)| x.0).collect()
}

/// Components that are bookkeeping of the merge (stamps inside the register / per hash field): two
/// values differing only there are neither "equal states" nor judged as "differing in an observable".
const INTERNAL: [&str; 2] = ["lww-stamp", "hash-field-stamps"];

fn observable_diff(a: &ReplicatedValue, b: &ReplicatedValue) -> Vec<&'static str> {
    diff_components(a, b).into_iter().filter(|c| !INTERNAL.contains(c)).collect()
}

/// The class named in a signature: the most structural observable component that differs.
fn primary_class(comps: &[&str]) -> &'static str {
    for c in ["key-presence", "type", "value", "tombstone", "hash-content", "stamp", "expiry", "vector-clock", "rf"] {
        if comps.contains(&c) {
            return c;
        }
    }
    "internal-stamps"
}

fn canon_state(m: &HashMap<String, ReplicatedValue>) -> BTreeMap<String, String> {
    m.iter().map(|(k, v)| (k.clone(), canon_value(v))).collect()
}

fn show_state(m: &BTreeMap<String, String>) -> String {
    if m.is_empty() {
        return "{}".into();
    }
    let v: Vec<String> = m.iter().map(|(k, v)| format!("{k}: {v}")).collect();
    format!("{{{}}}", v.join("; "))
}

// ------------------------------------------------------------------------------------------------
// reachable value set: histories of real write operations on a replica, closed under real merge
// ------------------------------------------------------------------------------------------------

#[derive(Clone)]
struct Val {
    recipe: String,
    v: ReplicatedValue,
    canon: String,
}

const VOPS: [&str; 7] = ["W(a)", "W(b)", "WX(a)", "D", "H(f=x)", "H(g=y)", "HD(f)"];

fn apply_vop(st: &mut ShardReplicaState, key: &str, op: &str) {
    match op {
        "W(a)" => {
            st.record_write(key.into(), SDS::from_str("a"), None);
        }
        "W(b)" => {
            st.record_write(key.into(), SDS::from_str("b"), None);
        }
        "WX(a)" => {
            st.record_write(key.into(), SDS::from_str("a"), Some(5000));
        }
        "D" => {
            st.record_delete(key.into());
        }
        "H(f=x)" => {
            st.record_hash_write(key.into(), vec![("f".into(), SDS::from_str("x"))]);
        }
        "H(g=y)" => {
            st.record_hash_write(key.into(), vec![("g".into(), SDS::from_str("y"))]);
        }
        "HD(f)" => {
            st.record_hash_delete(key.into(), vec!["f".into()]);
        }
        _ => unreachable!(),
    }
}

/// All histories of <= `maxlen` write operations on one key (including the empty one).
fn op_histories(maxlen: usize) -> Vec<Vec<&'static str>> {
    let mut all: Vec<Vec<&'static str>> = vec![vec![]];
    let mut frontier: Vec<Vec<&'static str>> = vec![vec![]];
    for _ in 0..maxlen {
        let mut next = Vec::new();
        for h in &frontier {
            for op in VOPS {
                let mut g = h.clone();
                g.push(op);
                next.push(g);
            }
        }
        all.extend(next.iter().cloned());
        frontier = next;
    }
    all
}

/// The deltas a universe offers: the value of the key after every prefix of replica 1's history and
/// of replica 2's history (name "1.2" = replica 1 after its first two operations).
fn universe_deltas(h1: &[&str], h2: &[&str]) -> Vec<(String, ReplicatedValue)> {
    let mut out = Vec::new();
    for (r, h) in [(1u64, h1), (2u64, h2)] {
        let mut st = ShardReplicaState::new(ReplicaId::new(r), ConsistencyLevel::Eventual);
        for (i, op) in h.iter().enumerate() {
            apply_vop(&mut st, "k", op);
            if let Some(v) = st.replicated_keys.get("k") {
                out.push((format!("{}.{}", r, i + 1), v.clone()));
            }
        }
    }
    out
}

/// Ordered sequences of distinct indices 0..n, length >= 1.
fn sequences(n: usize) -> Vec<Vec<usize>> {
    let mut out: Vec<Vec<usize>> = Vec::new();
    let mut frontier: Vec<Vec<usize>> = vec![vec![]];
    for _ in 0..n {
        let mut next = Vec::new();
        for s in &frontier {
            for i in 0..n {
                if !s.contains(&i) {
                    let mut t = s.clone();
                    t.push(i);
                    next.push(t);
                }
            }
        }
        out.extend(next.iter().cloned());
        frontier = next;
    }
    out
}

struct ValueSpace {
    vals: Vec<Val>,
    /// pairs (i < j) of values that can be held by two nodes of ONE execution
    joint: BTreeSet<(usize, usize)>,
    /// values that are plain deltas (state of a writer after a prefix of its history)
    base: Vec<usize>,
    universes: usize,
    merges: u64,
}

/// Reachable values and *jointly* reachable pairs. A universe fixes one write history (<= maxlen ops
/// on the key) per replica 1 and 2; every prefix state is a delta that gossip may deliver; a node can
/// hold the real merge (local.merge(remote), in arrival order) of any non-empty sequence of distinct
/// deltas. Two values are jointly reachable iff some universe offers both.
fn value_space(maxlen: usize) -> ValueSpace {
    let hs = op_histories(maxlen);
    let mut unis: Vec<(usize, usize)> = Vec::new();
    for a in 0..hs.len() {
        for b in 0..hs.len() {
            unis.push((a, b));
        }
    }
    // per universe: list of (canon, recipe, value, is_base)
    let seqs_by_n: Vec<Vec<Vec<usize>>> = (0..=2 * maxlen).map(sequences).collect();
    let per: Vec<(u64, Vec<(String, String, ReplicatedValue, bool)>)> = par::par_map(&unis, |_, &(a, b)| {
        let deltas = universe_deltas(&hs[a], &hs[b]);
        let mut seen: BTreeSet<String> = BTreeSet::new();
        let mut out = Vec::new();
        let seqs = &seqs_by_n[deltas.len()];
        // sequences are generated by length, each extending an earlier one: reuse the partial merges
        let mut partial: BTreeMap<&[usize], ReplicatedValue> = BTreeMap::new();
        for seq in seqs {
            let v = if seq.len() == 1 {
                deltas[seq[0]].1.clone()
            } else {
                partial[&seq[..seq.len() - 1]].merge(&deltas[seq[seq.len() - 1]].1)
            };
            let c = canon_value(&v);
            if seen.insert(c.clone()) {
                let recipe = format!(
                    "r1={};r2={}|{}",
                    hs[a].join(","),
                    hs[b].join(","),
                    seq.iter().map(|&i| deltas[i].0.clone()).collect::<Vec<_>>().join(">")
                );
                out.push((c, recipe, v.clone(), seq.len() == 1));
            }
            if seq.len() < deltas.len() {
                partial.insert(&seq[..], v);
            }
        }
        (seqs.len() as u64, out)
    });
    let mut index: BTreeMap<String, usize> = BTreeMap::new();
    let mut vals: Vec<Val> = Vec::new();
    let mut joint: BTreeSet<(usize, usize)> = BTreeSet::new();
    let mut base: BTreeSet<usize> = BTreeSet::new();
    let mut merges = 0u64;
    for (nseq, list) in per.iter() {
        merges += nseq;
        let mut ids = Vec::new();
        for (c, recipe, v, is_base) in list {
            let id = *index.entry(c.clone()).or_insert_with(|| {
                vals.push(Val { recipe: recipe.clone(), v: v.clone(), canon: c.clone() });
                vals.len() - 1
            });
            if *is_base {
                base.insert(id);
            }
            ids.push(id);
        }
        for &i in &ids {
            for &j in &ids {
                if i < j {
                    joint.insert((i, j));
                }
            }
        }
    }
    ValueSpace { vals, joint, base: base.into_iter().collect(), universes: unis.len(), merges }
}

// ------------------------------------------------------------------------------------------------
// keys: chosen with the real `KeyDigest::bucket` so that several keys share a bucket
// ------------------------------------------------------------------------------------------------

fn bucket_of(key: &str, depth: usize) -> usize {
    let v = ReplicatedValue::new(ReplicaId::new(1));
    KeyDigest::new(key, &v).bucket(depth)
}

/// (keys sharing one bucket [4 for depth 0, 3 otherwise], a key in another bucket if any)
fn pick_keys(depth: usize) -> (Vec<String>, Option<String>) {
    let cand: Vec<String> = (0..100_000).map(|i| format!("k{i}")).collect();
    if depth == 0 {
        return (cand[..4].to_vec(), None);
    }
    let mut by: BTreeMap<usize, Vec<String>> = BTreeMap::new();
    for k in &cand {
        let b = bucket_of(k, depth);
        let e = by.entry(b).or_default();
        e.push(k.clone());
        if e.len() == 3 {
            let shared = e.clone();
            let other = cand.iter().find(|c| bucket_of(c, depth) != b).cloned();
            return (shared, other);
        }
    }
    unreachable!("no three keys sharing a bucket among 100000 candidates")
}

/// Per-bucket iteration order of a map instance: the digest can depend on nothing else.
fn order_sig(m: &HashMap<String, ReplicatedValue>, depth: usize) -> Vec<(usize, Vec<String>)> {
    let mut by: BTreeMap<usize, Vec<String>> = BTreeMap::new();
    for k in m.keys() {
        by.entry(bucket_of(k, depth)).or_default().push(k.clone());
    }
    by.into_iter().collect()
}

fn full_order(m: &HashMap<String, ReplicatedValue>) -> Vec<String> {
    m.keys().cloned().collect()
}

fn factorial(n: usize) -> usize {
    (1..=n).product::<usize>().max(1)
}

/// Number of distinct per-bucket iteration orders a key set can show.
fn orders_possible(keys: &[String], depth: usize) -> usize {
    let mut by: BTreeMap<usize, usize> = BTreeMap::new();
    for k in keys {
        *by.entry(bucket_of(k, depth)).or_default() += 1;
    }
    by.values().map(|n| factorial(*n)).product()
}

fn permutations(n: usize) -> Vec<Vec<usize>> {
    fn rec(cur: &mut Vec<usize>, used: &mut Vec<bool>, n: usize, out: &mut Vec<Vec<usize>>) {
        if cur.len() == n {
            out.push(cur.clone());
            return;
        }
        for i in 0..n {
            if !used[i] {
                used[i] = true;
                cur.push(i);
                rec(cur, used, n, out);
                cur.pop();
                used[i] = false;
            }
        }
    }
    let mut out = Vec::new();
    rec(&mut Vec::new(), &mut vec![false; n], n, &mut out);
    out
}


// ------------------------------------------------------------------------------------------------
// (a) digests
// ------------------------------------------------------------------------------------------------

/// A content: key -> value (absent keys simply missing), in key-set order.
type Content = Vec<(String, ReplicatedValue)>;

#[derive(Clone, Copy, Debug, PartialEq, Eq, PartialOrd, Ord)]
enum Kind {
    Insert,         // HashMap::new(), insert in the given order
    ExtraFirst,     // an extra key inserted first, removed at the end
    ExtraLast,      // an extra key inserted last, then removed
    ExtraEach,      // an extra key before every insert, all removed at the end
    Overwrite,      // every key first inserted with another value, then overwritten
    RemoveReinsert, // all inserted, first key removed and inserted again
    Deltas,         // ShardReplicaState::apply_remote_delta in the given order (real merge path)
    DeltasTwice,    // every delta applied twice (merge idempotence on the way)
}
const KINDS: [Kind; 8] = [
    Kind::Insert,
    Kind::ExtraFirst,
    Kind::ExtraLast,
    Kind::ExtraEach,
    Kind::Overwrite,
    Kind::RemoveReinsert,
    Kind::Deltas,
    Kind::DeltasTwice,
];

fn filler() -> ReplicatedValue {
    ReplicatedValue::with_value(SDS::from_str("zz"), LamportClock { time: 9, replica_id: ReplicaId::new(3) })
}

fn build_map(content: &Content, kind: Kind, perm: &[usize]) -> HashMap<String, ReplicatedValue> {
    let ord: Vec<&(String, ReplicatedValue)> = perm.iter().map(|&i| &content[i]).collect();
    match kind {
        Kind::Insert => {
            let mut m = HashMap::new();
            for (k, v) in ord {
                m.insert(k.clone(), v.clone());
            }
            m
        }
        Kind::ExtraFirst => {
            let mut m = HashMap::new();
            m.insert("extra0".to_string(), filler());
            for (k, v) in ord {
                m.insert(k.clone(), v.clone());
            }
            m.remove("extra0");
            m
        }
        Kind::ExtraLast => {
            let mut m = HashMap::new();
            for (k, v) in ord {
                m.insert(k.clone(), v.clone());
            }
            m.insert("extra0".to_string(), filler());
            m.remove("extra0");
            m
        }
        Kind::ExtraEach => {
            let mut m = HashMap::new();
            for (i, (k, v)) in ord.iter().enumerate() {
                m.insert(format!("extra{i}"), filler());
                m.insert(k.clone(), v.clone());
            }
            for i in 0..ord.len() {
                m.remove(&format!("extra{i}"));
            }
            m
        }
        Kind::Overwrite => {
            let mut m = HashMap::new();
            for (k, _) in &ord {
                m.insert(k.clone(), filler());
            }
            for (k, v) in ord {
                m.insert(k.clone(), v.clone());
            }
            m
        }
        Kind::RemoveReinsert => {
            let mut m = HashMap::new();
            for (k, v) in &ord {
                m.insert(k.clone(), v.clone());
            }
            if let Some((k, v)) = ord.first() {
                m.remove(k);
                m.insert(k.clone(), v.clone());
            }
            m
        }
        Kind::Deltas | Kind::DeltasTwice => {
            let mut st = ShardReplicaState::new(ReplicaId::new(9), ConsistencyLevel::Eventual);
            let reps = if kind == Kind::Deltas { 1 } else { 2 };
            for _ in 0..reps {
                for (k, v) in &ord {
                    st.apply_remote_delta(ReplicationDelta::new(k.clone(), v.clone(), ReplicaId::new(8)));
                }
            }
            st.replicated_keys
        }
    }
}

type OrderSig = Vec<(usize, Vec<String>)>;

struct Inst {
    order: OrderSig,
    digest: StateDigest,
    how: String,
}

fn digest_of(m: &HashMap<String, ReplicatedValue>, depth: usize, n: usize) -> Result<StateDigest, String> {
    catch_unwind(AssertUnwindSafe(|| StateDigest::from_state(m, ReplicaId::new((n % 2) as u64 + 1), n as u64, depth)))
        .map_err(|p| vh::panic_text(&p))
}

#[derive(Default, Clone)]
struct Cov {
    instances: u64,
    eq_comparisons: u64,
    neq_comparisons: u64,
    contents: u64,
    pools_incomplete: u64,
    max_attempts_used: u64,
    merge_pairs_equal: u64,
    merge_pairs_unequal: u64,
    multi_bucket_contents: u64,
    not_idempotent_skipped: u64,
    pairs_internal_only: u64,
    pairs_not_jointly_reachable: u64,
}
impl Cov {
    fn add(&mut self, o: &Cov) {
        self.instances += o.instances;
        self.eq_comparisons += o.eq_comparisons;
        self.neq_comparisons += o.neq_comparisons;
        self.contents += o.contents;
        self.pools_incomplete += o.pools_incomplete;
        self.max_attempts_used = self.max_attempts_used.max(o.max_attempts_used);
        self.merge_pairs_equal += o.merge_pairs_equal;
        self.merge_pairs_unequal += o.merge_pairs_unequal;
        self.multi_bucket_contents += o.multi_bucket_contents;
        self.not_idempotent_skipped += o.not_idempotent_skipped;
        self.pairs_internal_only += o.pairs_internal_only;
        self.pairs_not_jointly_reachable += o.pairs_not_jointly_reachable;
    }
}

struct Viol {
    sig: String,
    detail: String,
    replay: Value,
}

fn content_json(c: &Content, recipes: &BTreeMap<String, String>) -> Value {
    Value::Array(
        c.iter()
            .map(|(k, v)| {
                let cv = canon_value(v);
                json!({"key": k, "value": cv, "recipe": recipes.get(&cv).cloned().unwrap_or_default()})
            })
            .collect(),
    )
}

fn show_content(c: &Content) -> String {
    let v: Vec<String> = c.iter().map(|(k, v)| format!("{k}: {}", canon_value(v))).collect();
    format!("{{{}}}", v.join("; "))
}

fn show_order(o: &OrderSig) -> String {
    o.iter().map(|(b, ks)| format!("bucket {b}: [{}]", ks.join(","))).collect::<Vec<_>>().join(" ")
}

/// Oracle for two instances holding the SAME state.
fn check_equal(
    depth: usize,
    ca: &Content,
    cb: &Content,
    a: &Inst,
    b: &Inst,
    context: &str,
    recipes: &BTreeMap<String, String>,
    out: &mut Vec<Viol>,
) {
    let r = catch_unwind(AssertUnwindSafe(|| {
        (
            a.digest.differs_from(&b.digest),
            b.digest.differs_from(&a.digest),
            a.digest.divergent_buckets(&b.digest),
            b.digest.divergent_buckets(&a.digest),
        )
    }));
    let (d1, d2, v1, v2) = match r {
        Ok(x) => x,
        Err(p) => {
            out.push(Viol {
                sig: "digest: panic comparing digests".into(),
                detail: format!("{} depth={depth} {}: {}", context, show_content(ca), vh::panic_text(&p)),
                replay: json!({"part": "digest", "oracle": "equal", "depth": depth, "a": content_json(ca, recipes), "b": content_json(cb, recipes)}),
            });
            return;
        }
    };
    let differs = d1 || d2;
    let listed = !v1.is_empty() || !v2.is_empty();
    if !differs && !listed {
        return;
    }
    let same_order = a.order == b.order;
    let max_pop = a.order.iter().map(|(_, k)| k.len()).max().unwrap_or(0);
    let sig = format!(
        "digest false-divergent: equal states, {} ({}){}",
        if differs { "differs_from=true" } else { "differs_from=false but divergent_buckets non-empty" },
        if same_order {
            "same per-bucket iteration order".to_string()
        } else {
            format!("per-bucket iteration order differs, {} keys in one bucket", if max_pop >= 2 { ">=2" } else { "1" })
        },
        if differs && !listed { ", divergent_buckets empty" } else { "" }
    );
    if out.iter().any(|v| v.sig == sig) {
        return;
    }
    out.push(Viol {
        sig,
        detail: format!(
            "{} merkle depth {}: both maps hold {} ; instance A ({}) iterates {} ; instance B ({}) iterates {} ; differs_from={} divergent_buckets={:?}",
            context,
            depth,
            show_content(ca),
            a.how,
            show_order(&a.order),
            b.how,
            show_order(&b.order),
            differs,
            v1
        ),
        replay: json!({"part": "digest", "oracle": "equal", "depth": depth,
            "a": content_json(ca, recipes), "b": content_json(cb, recipes),
            "a_order": a.order, "b_order": b.order}),
    });
}

/// Oracle for two instances holding DIFFERENT states; `diff_keys` = keys whose state differs with the
/// differing component names.
fn check_unequal(
    depth: usize,
    ca: &Content,
    cb: &Content,
    a: &Inst,
    b: &Inst,
    diff_keys: &[(String, Vec<&'static str>)],
    context: &str,
    recipes: &BTreeMap<String, String>,
    out: &mut Vec<Viol>,
) {
    let r = catch_unwind(AssertUnwindSafe(|| {
        (
            a.digest.differs_from(&b.digest),
            b.digest.differs_from(&a.digest),
            a.digest.divergent_buckets(&b.digest),
            b.digest.divergent_buckets(&a.digest),
        )
    }));
    let (d1, d2, v1, v2) = match r {
        Ok(x) => x,
        Err(p) => {
            out.push(Viol {
                sig: "digest: panic comparing digests".into(),
                detail: format!("{} depth={depth} {} vs {}: {}", context, show_content(ca), show_content(cb), vh::panic_text(&p)),
                replay: json!({"part": "digest", "oracle": "unequal", "depth": depth, "a": content_json(ca, recipes), "b": content_json(cb, recipes)}),
            });
            return;
        }
    };
    let mut comps: BTreeSet<&'static str> = BTreeSet::new();
    for (_, c) in diff_keys {
        comps.extend(c.iter().copied());
    }
    let comps: Vec<&str> = comps.into_iter().collect();
    let unlisted: Vec<&String> = diff_keys
        .iter()
        .map(|(k, _)| k)
        .filter(|k| {
            let bk = bucket_of(k, depth);
            !v1.contains(&bk) || !v2.contains(&bk)
        })
        .collect();
    // one problem per case: a bucket that is not reported (the sync would skip the key; with a single
    // differing key and nothing else in the way differs_from is then false as well), else a root
    // hash that agrees although the bucket is reported
    let problem = if !unlisted.is_empty() {
        "the key's bucket is not reported divergent"
    } else if !d1 || !d2 {
        "differs_from=false although the bucket is reported"
    } else {
        return;
    };
    let class = primary_class(&if unlisted.is_empty() {
        comps.clone()
    } else {
        diff_keys.iter().filter(|(k, _)| unlisted.contains(&k)).flat_map(|(_, c)| c.iter().copied()).collect::<Vec<_>>()
    });
    let sig = format!("digest false in-sync: states differ in {class} yet {problem}");
    if out.iter().any(|v| v.sig == sig) {
        return;
    }
    out.push(Viol {
        sig,
        detail: format!(
            "{} merkle depth {}: A = {} (iterates {}) ; B = {} (iterates {}) ; differing keys {:?} ; differs_from={}/{} divergent_buckets={:?}/{:?}",
            context,
            depth,
            show_content(ca),
            show_order(&a.order),
            show_content(cb),
            show_order(&b.order),
            diff_keys,
            d1,
            d2,
            v1,
            v2
        ),
        replay: json!({"part": "digest", "oracle": "unequal", "depth": depth,
            "a": content_json(ca, recipes), "b": content_json(cb, recipes),
            "a_order": a.order, "b_order": b.order}),
    });
}

/// Keys whose state differs between two contents (presence counts) with the *observable* component
/// names; a key differing only in internal stamps is listed with an empty component list.
fn content_diff(ca: &Content, cb: &Content) -> Vec<(String, Vec<&'static str>)> {
    let ma: BTreeMap<&String, &ReplicatedValue> = ca.iter().map(|(k, v)| (k, v)).collect();
    let mb: BTreeMap<&String, &ReplicatedValue> = cb.iter().map(|(k, v)| (k, v)).collect();
    let keys: BTreeSet<&String> = ma.keys().chain(mb.keys()).copied().collect();
    let mut out = Vec::new();
    for k in keys {
        match (ma.get(k), mb.get(k)) {
            (Some(x), Some(y)) => {
                if !diff_components(x, y).is_empty() {
                    out.push((k.clone(), observable_diff(x, y)));
                }
            }
            _ => out.push((k.clone(), vec!["key-presence"])),
        }
    }
    out
}

/// How a pair of contents is judged.
enum Judge {
    Equal,
    /// keys differing in an observable (these buckets must be reported)
    Unequal(Vec<(String, Vec<&'static str>)>),
    /// differ only in internal stamps: neither oracle applies
    InternalOnly,
}

fn judge(ca: &Content, cb: &Content) -> Judge {
    let d = content_diff(ca, cb);
    if d.is_empty() {
        return Judge::Equal;
    }
    let obs: Vec<(String, Vec<&'static str>)> = d.into_iter().filter(|(_, c)| !c.is_empty()).collect();
    if obs.is_empty() {
        Judge::InternalOnly
    } else {
        Judge::Unequal(obs)
    }
}

const MAX_ATTEMPTS: usize = 20_000;

/// Build instances of `content` with every construction kind x insertion permutation, round after
/// round, until every per-bucket iteration order has been observed (and at least `min_rounds` rounds
/// were made) or MAX_ATTEMPTS instances were built. Every instance is compared (equal-state oracle)
/// with the first one. Returns one instance per observed order.
fn build_pool(
    content: &Content,
    depth: usize,
    kinds: &[Kind],
    min_rounds: usize,
    context: &str,
    recipes: &BTreeMap<String, String>,
    cov: &mut Cov,
    out: &mut Vec<Viol>,
) -> Vec<Inst> {
    let keys: Vec<String> = content.iter().map(|(k, _)| k.clone()).collect();
    let want = orders_possible(&keys, depth);
    let perms = permutations(content.len());
    let mut pool: BTreeMap<OrderSig, Inst> = BTreeMap::new();
    let mut reference: Option<Inst> = None;
    let mut built = 0usize;
    let mut rounds = 0usize;
    let mut mine: Vec<Viol> = Vec::new();
    let intended: BTreeMap<String, String> = content.iter().map(|(k, v)| (k.clone(), canon_value(v))).collect();
    cov.contents += 1;
    if want > 1 {
        cov.multi_bucket_contents += 1;
    }
    'outer: loop {
        for kind in kinds {
            for perm in &perms {
                let m = build_map(content, *kind, perm);
                built += 1;
                // the construction must have produced the intended state; only the merge-based kinds can
                // legitimately miss it (merge(v,v) != v would be C07's business, not a digest defect)
                let verify = rounds == 0 || matches!(kind, Kind::Deltas | Kind::DeltasTwice);
                if verify && canon_state(&m) != intended {
                    if matches!(kind, Kind::Deltas | Kind::DeltasTwice) {
                        cov.not_idempotent_skipped += 1;
                        continue;
                    }
                    eprintln!("MACHINERY-FAILURE property=C18 construction {:?} did not produce the intended content", kind);
                    std::process::exit(2);
                }
                let dg = match digest_of(&m, depth, built) {
                    Ok(d) => d,
                    Err(p) => {
                        out.push(Viol {
                            sig: "digest: panic in StateDigest::from_state".into(),
                            detail: format!("{context} depth={depth} {}: {p}", show_content(content)),
                            replay: json!({"part": "digest", "oracle": "equal", "depth": depth, "a": content_json(content, recipes), "b": content_json(content, recipes)}),
                        });
                        return Vec::new();
                    }
                };
                let inst = Inst { order: order_sig(&m, depth), digest: dg, how: format!("{:?} order {:?}", kind, perm) };
                cov.instances += 1;
                match &reference {
                    None => {
                        reference = Some(Inst { order: inst.order.clone(), digest: inst.digest.clone(), how: inst.how.clone() });
                    }
                    Some(r) => {
                        cov.eq_comparisons += 1;
                        check_equal(depth, content, content, r, &inst, context, recipes, &mut mine);
                    }
                }
                pool.entry(inst.order.clone()).or_insert(inst);
                if built >= MAX_ATTEMPTS {
                    break 'outer;
                }
            }
        }
        rounds += 1;
        if rounds >= min_rounds && pool.len() >= want {
            break;
        }
    }
    out.extend(mine);
    cov.max_attempts_used = cov.max_attempts_used.max(built as u64);
    if pool.len() < want {
        cov.pools_incomplete += 1;
    }
    pool.into_values().collect()
}

// ---- (a) work items -----------------------------------------------------------------------------

#[derive(Clone, Debug)]
enum Sweep {
    /// every instance of one content compared with the first (all kinds, all orders)
    Equal { assign: Vec<usize> },
    /// position `pos` ranges over the whole value list and "absent": all pairs, all order pairs
    Unequal { bg: Vec<usize>, pos: usize },
    /// merge(A,B) vs merge(B,A) through `apply_remote_delta`, (v,w) over base x base at `pos`
    MergeOrder { bg: Vec<usize>, pos: usize, vi: usize },
    /// two keys i < j, values (v, w) over the base list: {i:v, j:w} vs {i:w, j:v} (versions swapped between
    /// two keys) and {i:v, j:v} vs {i:w, j:w} (both keys move together) - states that a digest which does not
    /// bind every version to its key cannot tell apart. Two keys carrying equal stamps occur whenever a
    /// replica's keys are stamped by several clocks (the production node runs one clock per shard).
    Swap { bg: Vec<usize>, i: usize, j: usize },
}

#[derive(Clone, Debug)]
struct Item {
    depth: usize,
    keys: Vec<String>,
    sweep: Sweep,
}

struct ItemResult {
    cov: Cov,
    viols: Vec<Viol>,
    label: String,
    orders_possible: usize,
    orders_observed_min: usize,
    nontrivial: u64,
}

struct Ctx {
    core: Vec<ReplicatedValue>,
    vals: Vec<ReplicatedValue>,
    /// value ids ranging at the varying position of the Unequal sweep
    list: Vec<usize>,
    /// value ids ranging in the MergeOrder sweep
    mlist: Vec<usize>,
    joint: BTreeSet<(usize, usize)>,
    recipes: BTreeMap<String, String>,
}

impl Ctx {
    fn jointly_reachable(&self, i: usize, j: usize) -> bool {
        i == j || self.joint.contains(&(i.min(j), i.max(j)))
    }
}

fn keyset_label(depth: usize, keys: &[String]) -> String {
    let mut by: BTreeMap<usize, usize> = BTreeMap::new();
    for k in keys {
        *by.entry(bucket_of(k, depth)).or_default() += 1;
    }
    let pops: Vec<String> = by.values().map(|n| n.to_string()).collect();
    format!("depth {} keys [{}] bucket populations {}", depth, keys.join(","), pops.join("+"))
}

fn state_to_content(m: &HashMap<String, ReplicatedValue>) -> Content {
    let mut c: Content = m.iter().map(|(k, v)| (k.clone(), v.clone())).collect();
    c.sort_by(|a, b| a.0.cmp(&b.0));
    c
}

fn run_item(it: &Item, ctx: &Ctx) -> ItemResult {
    let mut cov = Cov::default();
    let mut viols: Vec<Viol> = Vec::new();
    let label = keyset_label(it.depth, &it.keys);
    let possible = orders_possible(&it.keys, it.depth);
    let mut observed_min = usize::MAX;
    let mut nontrivial = 0u64;
    let mut seen_sigs: BTreeSet<String> = BTreeSet::new();
    let mut push = |v: Vec<Viol>, viols: &mut Vec<Viol>| {
        for x in v {
            if seen_sigs.insert(x.sig.clone()) {
                viols.push(x);
            }
        }
    };
    match &it.sweep {
        Sweep::Equal { assign } => {
            let content: Content = it.keys.iter().zip(assign).map(|(k, &i)| (k.clone(), ctx.core[i].clone())).collect();
            let mut out = Vec::new();
            let pool = build_pool(&content, it.depth, &KINDS, 2, "equal-content sweep", &ctx.recipes, &mut cov, &mut out);
            observed_min = observed_min.min(pool.len());
            if possible > 1 {
                nontrivial += 1;
            }
            push(out, &mut viols);
        }
        Sweep::Unequal { bg, pos } => {
            // contents: value list at `pos` (+ absent), background elsewhere
            let mut contents: Vec<Content> = Vec::new();
            let ids: Vec<Option<usize>> = ctx.list.iter().map(|&i| Some(i)).chain(std::iter::once(None)).collect();
            for v in ids.iter().map(|o| o.map(|i| &ctx.vals[i])) {
                let mut c: Content = Vec::new();
                for (i, k) in it.keys.iter().enumerate() {
                    if i == *pos {
                        if let Some(v) = v {
                            c.push((k.clone(), v.clone()));
                        }
                    } else {
                        c.push((k.clone(), ctx.core[bg[i]].clone()));
                    }
                }
                contents.push(c);
            }
            let mut pools: Vec<Vec<Inst>> = Vec::new();
            for c in &contents {
                let mut out = Vec::new();
                let p = build_pool(c, it.depth, &[Kind::Insert, Kind::ExtraEach, Kind::Deltas], 1, "unequal-content sweep (pool)", &ctx.recipes, &mut cov, &mut out);
                let keys: Vec<String> = c.iter().map(|(k, _)| k.clone()).collect();
                if orders_possible(&keys, it.depth) == possible {
                    observed_min = observed_min.min(p.len());
                }
                push(out, &mut viols);
                pools.push(p);
            }
            for i in 0..contents.len() {
                for j in (i + 1)..contents.len() {
                    // only pairs that two nodes of one execution can hold (a node may always lack the key)
                    if let (Some(a), Some(b)) = (ids[i], ids[j]) {
                        if !ctx.jointly_reachable(a, b) {
                            cov.pairs_not_jointly_reachable += 1;
                            continue;
                        }
                    }
                    let d = match judge(&contents[i], &contents[j]) {
                        Judge::Unequal(d) => d,
                        Judge::Equal => continue,
                        Judge::InternalOnly => {
                            cov.pairs_internal_only += 1;
                            continue;
                        }
                    };
                    nontrivial += 1;
                    let mut out = Vec::new();
                    for a in &pools[i] {
                        for b in &pools[j] {
                            cov.neq_comparisons += 1;
                            check_unequal(it.depth, &contents[i], &contents[j], a, b, &d, "unequal-content sweep", &ctx.recipes, &mut out);
                        }
                    }
                    push(out, &mut viols);
                }
            }
        }
        Sweep::Swap { bg, i, j } => {
            let mk = |a: usize, b: usize| -> Content {
                let mut c: Content = Vec::new();
                for (x, k) in it.keys.iter().enumerate() {
                    if x == *i {
                        c.push((k.clone(), ctx.vals[a].clone()));
                    } else if x == *j {
                        c.push((k.clone(), ctx.vals[b].clone()));
                    } else {
                        c.push((k.clone(), ctx.core[bg[x]].clone()));
                    }
                }
                c
            };
            for (ai, &v) in ctx.mlist.iter().enumerate() {
                for &w in &ctx.mlist[ai + 1..] {
                    if !ctx.jointly_reachable(v, w) {
                        cov.pairs_not_jointly_reachable += 1;
                        continue;
                    }
                    for (ca, cb) in [(mk(v, w), mk(w, v)), (mk(v, v), mk(w, w))] {
                        let d = match judge(&ca, &cb) {
                            Judge::Unequal(d) => d,
                            Judge::Equal => continue,
                            Judge::InternalOnly => {
                                cov.pairs_internal_only += 1;
                                continue;
                            }
                        };
                        nontrivial += 1;
                        let mut out = Vec::new();
                        let pa = build_pool(&ca, it.depth, &[Kind::Insert], 1, "swap sweep (pool)", &ctx.recipes, &mut cov, &mut out);
                        let pb = build_pool(&cb, it.depth, &[Kind::Insert], 1, "swap sweep (pool)", &ctx.recipes, &mut cov, &mut out);
                        observed_min = observed_min.min(pa.len()).min(pb.len());
                        for a in &pa {
                            for b in &pb {
                                cov.neq_comparisons += 1;
                                check_unequal(it.depth, &ca, &cb, a, b, &d, "swap sweep", &ctx.recipes, &mut out);
                            }
                        }
                        push(out, &mut viols);
                    }
                }
            }
        }
        Sweep::MergeOrder { bg, pos, vi } => {
            for &vid in &ctx.mlist[*vi..*vi + 1] {
                for &wid in &ctx.mlist {
                    if !ctx.jointly_reachable(vid, wid) {
                        cov.pairs_not_jointly_reachable += 1;
                        continue;
                    }
                    let (v, w) = (&ctx.vals[vid], &ctx.vals[wid]);
                    let mut sa: Vec<ReplicationDelta> = Vec::new();
                    let mut sb: Vec<ReplicationDelta> = Vec::new();
                    for (i, k) in it.keys.iter().enumerate() {
                        if i == *pos {
                            sa.push(ReplicationDelta::new(k.clone(), v.clone(), ReplicaId::new(1)));
                            sb.push(ReplicationDelta::new(k.clone(), w.clone(), ReplicaId::new(2)));
                        } else if i % 2 == 0 {
                            sa.push(ReplicationDelta::new(k.clone(), ctx.core[bg[i]].clone(), ReplicaId::new(1)));
                        } else {
                            sb.push(ReplicationDelta::new(k.clone(), ctx.core[bg[i]].clone(), ReplicaId::new(2)));
                        }
                    }
                    let mut px: BTreeMap<OrderSig, Inst> = BTreeMap::new();
                    let mut py: BTreeMap<OrderSig, Inst> = BTreeMap::new();
                    let mut cx: Option<Content> = None;
                    let mut cy: Option<Content> = None;
                    let mut attempts = 0usize;
                    let mut failed = false;
                    while (px.len() < possible || py.len() < possible) && attempts < MAX_ATTEMPTS {
                        attempts += 1;
                        for (first, second, pool, cont, how) in [(&sa, &sb, &mut px, &mut cx, "A then B"), (&sb, &sa, &mut py, &mut cy, "B then A")] {
                            let mut st = ShardReplicaState::new(ReplicaId::new(9), ConsistencyLevel::Eventual);
                            for d in first.iter().chain(second.iter()) {
                                st.apply_remote_delta(d.clone());
                            }
                            let m = st.replicated_keys;
                            if cont.is_none() {
                                *cont = Some(state_to_content(&m));
                            }
                            match digest_of(&m, it.depth, attempts) {
                                Ok(dg) => {
                                    cov.instances += 1;
                                    let o = order_sig(&m, it.depth);
                                    pool.entry(o.clone()).or_insert(Inst { order: o, digest: dg, how: format!("apply_remote_delta {how}") });
                                }
                                Err(_) => failed = true,
                            }
                        }
                        if failed {
                            break;
                        }
                    }
                    cov.max_attempts_used = cov.max_attempts_used.max(attempts as u64);
                    if px.len() < possible || py.len() < possible {
                        cov.pools_incomplete += 1;
                    }
                    observed_min = observed_min.min(px.len()).min(py.len());
                    let (cx, cy) = (cx.unwrap_or_default(), cy.unwrap_or_default());
                    let j = judge(&cx, &cy);
                    cov.contents += 2;
                    // recipes of the merged values (for the replay file)
                    let mut recipes = BTreeMap::new();
                    if let (Some(rv), Some(rw)) = (ctx.recipes.get(&canon_value(v)), ctx.recipes.get(&canon_value(w))) {
                        recipes.insert(canon_value(&v.merge(w)), format!("M({rv} & {rw})"));
                        recipes.insert(canon_value(&w.merge(v)), format!("M({rw} & {rv})"));
                    }
                    for (k, val) in cx.iter().chain(cy.iter()) {
                        let _ = k;
                        let c = canon_value(val);
                        if let Some(r) = ctx.recipes.get(&c) {
                            recipes.entry(c).or_insert(r.clone());
                        }
                    }
                    let recipes = &recipes;
                    let mut out = Vec::new();
                    if matches!(j, Judge::InternalOnly) {
                        cov.pairs_internal_only += 1;
                        continue;
                    }
                    nontrivial += 1;
                    if matches!(j, Judge::Equal) {
                        cov.merge_pairs_equal += 1;
                        for a in px.values() {
                            for b in py.values() {
                                cov.eq_comparisons += 1;
                                check_equal(it.depth, &cx, &cy, a, b, "merge(A,B) vs merge(B,A)", recipes, &mut out);
                            }
                        }
                    } else if let Judge::Unequal(d) = &j {
                        cov.merge_pairs_unequal += 1;
                        for a in px.values() {
                            for b in py.values() {
                                cov.neq_comparisons += 1;
                                check_unequal(it.depth, &cx, &cy, a, b, d, "merge(A,B) vs merge(B,A)", recipes, &mut out);
                            }
                        }
                    }
                    push(out, &mut viols);
                }
            }
        }
    }
    ItemResult {
        cov,
        viols,
        label,
        orders_possible: possible,
        orders_observed_min: if observed_min == usize::MAX { 0 } else { observed_min },
        nontrivial,
    }
}

// ------------------------------------------------------------------------------------------------
// (b) sync
// ------------------------------------------------------------------------------------------------

#[derive(Clone, Copy, Debug, PartialEq, Eq, PartialOrd, Ord)]
enum WOp {
    Set(usize),
    SetEx(usize),
    Del(usize),
}

fn wop_show(op: WOp, keys: &[String], node: usize) -> String {
    let val = if node == 0 { "a" } else { "b" };
    match op {
        WOp::Set(k) => format!("SET {} {}", keys[k], val),
        WOp::SetEx(k) => format!("SET {} {} EX 100", keys[k], val),
        WOp::Del(k) => format!("DEL {}", keys[k]),
    }
}

fn wop_cmd(op: WOp, keys: &[String], node: usize) -> Command {
    let val = SDS::from_str(if node == 0 { "a" } else { "b" });
    match op {
        WOp::Set(k) => Command::set(keys[k].clone(), val),
        WOp::SetEx(k) => Command::setex(keys[k].clone(), 100, val),
        WOp::Del(k) => Command::del(keys[k].clone()),
    }
}

fn wop_json(h: &[WOp]) -> Value {
    Value::Array(
        h.iter()
            .map(|o| match o {
                WOp::Set(k) => json!(["set", k]),
                WOp::SetEx(k) => json!(["setex", k]),
                WOp::Del(k) => json!(["del", k]),
            })
            .collect(),
    )
}

fn wop_from_json(v: &Value) -> Vec<WOp> {
    v.as_array()
        .map(|a| {
            a.iter()
                .filter_map(|o| {
                    let k = o[1].as_u64()? as usize;
                    match o[0].as_str()? {
                        "set" => Some(WOp::Set(k)),
                        "setex" => Some(WOp::SetEx(k)),
                        "del" => Some(WOp::Del(k)),
                        _ => None,
                    }
                })
                .collect()
        })
        .unwrap_or_default()
}

#[derive(Clone, Debug)]
struct SyncCfg {
    depth: usize,
    keys: Vec<String>,
    name: String,
}

struct Once {
    init: (OrderSig, OrderSig, Vec<String>, Vec<String>),
    fin: (OrderSig, OrderSig),
    rounds: Option<usize>,
    initially_divergent: bool,
    final_states_equal: bool,
    one_exchange_checked: bool,
    causes: Vec<(String, String)>,
}

const S_ORDER: &str = "sync never in-sync within #keys+1 rounds: final states equal but digests differ (per-bucket iteration order)";
const S_STAMP: &str = "sync never in-sync within #keys+1 rounds: both sides hold the merged value but stamped with their own replica id (merge(a,b) != merge(b,a))";

fn run_once(cfg: &SyncCfg, ha: &[WOp], hb: &[WOp], limit: usize) -> Result<Once, String> {
    let mut sim = MultiNodeSimulation::new(2, 0);
    for n in 0..2 {
        sim.nodes[n].anti_entropy.config.max_keys_per_sync = limit;
        sim.nodes[n].anti_entropy.config.merkle_tree_depth = cfg.depth;
    }
    for op in ha {
        sim.execute(0, 0, wop_cmd(*op, &cfg.keys, 0));
    }
    for op in hb {
        sim.execute(1, 1, wop_cmd(*op, &cfg.keys, 1));
    }
    let prior_a: BTreeMap<String, ReplicatedValue> = sim.nodes[0].replica_state.replicated_keys.iter().map(|(k, v)| (k.clone(), v.clone())).collect();
    let prior_b: BTreeMap<String, ReplicatedValue> = sim.nodes[1].replica_state.replicated_keys.iter().map(|(k, v)| (k.clone(), v.clone())).collect();
    let union: BTreeSet<String> = prior_a.keys().chain(prior_b.keys()).cloned().collect();
    let init = (
        order_sig(&sim.nodes[0].replica_state.replicated_keys, cfg.depth),
        order_sig(&sim.nodes[1].replica_state.replicated_keys, cfg.depth),
        full_order(&sim.nodes[0].replica_state.replicated_keys),
        full_order(&sim.nodes[1].replica_state.replicated_keys),
    );
    let (da, db) = (sim.nodes[0].generate_digest(), sim.nodes[1].generate_digest());
    let initially_divergent = da.differs_from(&db);
    let divergent0: Vec<usize> = da.divergent_buckets(&db);
    let s0a = canon_state(&sim.nodes[0].replica_state.replicated_keys);
    let s0b = canon_state(&sim.nodes[1].replica_state.replicated_keys);
    let mut causes: Vec<(String, String)> = Vec::new();
    let scenario = format!(
        "{} limit {}: node0 [{}] node1 [{}]; prior node0 = {} prior node1 = {}",
        cfg.name,
        limit,
        ha.iter().map(|o| wop_show(*o, &cfg.keys, 0)).collect::<Vec<_>>().join("; "),
        hb.iter().map(|o| wop_show(*o, &cfg.keys, 1)).collect::<Vec<_>>().join("; "),
        show_state(&s0a),
        show_state(&s0b)
    );
    if s0a != s0b && !initially_divergent {
        causes.push((
            "sync false in-sync: prior states differ but digests agree, nothing is exchanged".into(),
            format!("{scenario}"),
        ));
    }
    if s0a == s0b && initially_divergent {
        causes.push((
            "sync false-divergent: prior states equal but digests differ".into(),
            format!("{scenario}; iteration node0 {} node1 {}", show_order(&init.0), show_order(&init.1)),
        ));
    }
    let max_rounds = union.len() + 1;
    let mut rounds: Option<usize> = if initially_divergent { None } else { Some(0) };
    // state of both sides after exactly one exchange
    let mut after_one: Option<(BTreeMap<String, String>, BTreeMap<String, String>, bool)> = None;
    // the limit does not truncate iff each side has at most `limit` keys in the divergent buckets
    let in_div = |m: &BTreeMap<String, ReplicatedValue>| m.keys().filter(|k| divergent0.contains(&bucket_of(k, cfg.depth))).count();
    let not_truncating = limit >= in_div(&prior_a).max(in_div(&prior_b));
    if initially_divergent {
        for r in 1..=max_rounds {
            sim.run_anti_entropy_sync(0, 1);
            let (da, db) = (sim.nodes[0].generate_digest(), sim.nodes[1].generate_digest());
            if r == 1 {
                after_one = Some((
                    canon_state(&sim.nodes[0].replica_state.replicated_keys),
                    canon_state(&sim.nodes[1].replica_state.replicated_keys),
                    !da.differs_from(&db) && da.divergent_buckets(&db).is_empty(),
                ));
            }
            if !da.differs_from(&db) && da.divergent_buckets(&db).is_empty() {
                rounds = Some(r);
                break;
            }
        }
    }
    // replay only: how does the pair look after many more rounds (informational)
    let extra = EXTRA_ROUNDS.load(std::sync::atomic::Ordering::Relaxed);
    let mut later = String::new();
    if rounds.is_none() && extra > 0 {
        let snapshot = (canon_state(&sim.nodes[0].replica_state.replicated_keys), canon_state(&sim.nodes[1].replica_state.replicated_keys));
        let mut sim2_round = None;
        for r in 1..=extra {
            sim.run_anti_entropy_sync(0, 1);
            let (da, db) = (sim.nodes[0].generate_digest(), sim.nodes[1].generate_digest());
            if !da.differs_from(&db) {
                sim2_round = Some(max_rounds + r);
                break;
            }
        }
        later = match sim2_round {
            Some(r) => format!(" [replay: digests agree only after {r} rounds]"),
            None => format!(" [replay: digests still differ after {} further rounds]", extra),
        };
        let _ = snapshot;
    }
    let fa = &sim.nodes[0].replica_state.replicated_keys;
    let fb = &sim.nodes[1].replica_state.replicated_keys;
    let fin = (order_sig(fa, cfg.depth), order_sig(fb, cfg.depth));
    let (sa, sb) = (canon_state(fa), canon_state(fb));
    // expected merged value(s) per key
    let expected = |k: &String| -> BTreeSet<String> {
        let mut e = BTreeSet::new();
        match (prior_a.get(k), prior_b.get(k)) {
            (Some(a), Some(b)) => {
                e.insert(canon_value(&a.merge(b)));
                e.insert(canon_value(&b.merge(a)));
            }
            (Some(a), None) => {
                e.insert(canon_value(a));
            }
            (None, Some(b)) => {
                e.insert(canon_value(b));
            }
            (None, None) => {}
        }
        e
    };
    // ONE exchange suffices when the per-round limit does not truncate: every key of an initially
    // divergent bucket holds the merge on both sides and the digests agree
    if let (true, Some((a1, b1, agree1))) = (not_truncating, &after_one) {
        let one_txt = format!("after exactly one run_anti_entropy_sync: node0 = {} node1 = {} digests agree: {}", show_state(a1), show_state(b1), agree1);
        let mut unmerged = false;
        for k in &union {
            if !divergent0.contains(&bucket_of(k, cfg.depth)) {
                continue;
            }
            let e = expected(k);
            for (side, st) in [("node0", a1), ("node1", b1)] {
                if !st.get(k).map(|v| e.contains(v)).unwrap_or(false) && !unmerged {
                    unmerged = true;
                    causes.push((
                        "sync one exchange (limit not truncating) leaves a divergent-bucket key unmerged".into(),
                        format!("{scenario}; key {k} on {side} holds {:?}, expected {:?}; {one_txt}", st.get(k), e),
                    ));
                }
            }
        }
        if !unmerged && !agree1 {
            causes.push((
                "sync one exchange (limit not truncating) merges every divergent-bucket key yet the digests still differ".into(),
                format!("{scenario}; {one_txt}"),
            ));
        }
    }
    let fin_txt = format!("after {} round(s): node0 = {} (iterates {}) node1 = {} (iterates {})", rounds.map(|r| r.to_string()).unwrap_or(format!("{max_rounds}")), show_state(&sa), show_order(&fin.0), show_state(&sb), show_order(&fin.1));
    if initially_divergent {
        match rounds {
            None => {
                if sa == sb {
                    causes.push((S_ORDER.into(), format!("{scenario}; {fin_txt}")));
                } else {
                    for k in &union {
                        let (va, vb) = (sa.get(k), sb.get(k));
                        if va == vb {
                            continue;
                        }
                        let e = expected(k);
                        let ok_a = va.map(|v| e.contains(v)).unwrap_or(false);
                        let ok_b = vb.map(|v| e.contains(v)).unwrap_or(false);
                        if !ok_a || !ok_b {
                            let pop = union.len();
                            causes.push((
                                format!(
                                    "sync never in-sync within #keys+1 rounds: a key of a divergent bucket is never transferred ({})",
                                    if limit < pop { "max_keys_per_sync < number of keys" } else { "max_keys_per_sync >= number of keys" }
                                ),
                                format!("{scenario}; key {k} expected {:?}; {fin_txt}", e),
                            ));
                        } else {
                            let d = observable_diff(&fa[k], &fb[k]);
                            if d == vec!["stamp"] && fa[k].timestamp.time == fb[k].timestamp.time {
                                causes.push((S_STAMP.into(), format!("{scenario}; key {k}; {fin_txt}")));
                            } else {
                                causes.push((
                                    format!("sync never in-sync within #keys+1 rounds: merged values differ in {}", primary_class(&d)),
                                    format!("{scenario}; key {k}; {fin_txt}"),
                                ));
                            }
                        }
                    }
                }
            }
            Some(_) => {
                let mut reported_false_in_sync = false;
                if sa != sb {
                    let mut comps: BTreeSet<&str> = BTreeSet::new();
                    for k in &union {
                        match (fa.get(k), fb.get(k)) {
                            (Some(x), Some(y)) => comps.extend(observable_diff(x, y)),
                            _ => {
                                comps.insert("key-presence");
                            }
                        }
                    }
                    if !comps.is_empty() {
                        reported_false_in_sync = true;
                        causes.push((
                            format!("sync false in-sync: digests agree after sync but states differ in {}", primary_class(&comps.into_iter().collect::<Vec<_>>())),
                            format!("{scenario}; {fin_txt}"),
                        ));
                    }
                }
                // (if the two sides differ that is already reported above; here: both agree on a wrong value)
                for k in &union {
                    if reported_false_in_sync || !divergent0.contains(&bucket_of(k, cfg.depth)) {
                        continue;
                    }
                    let e = expected(k);
                    for (side, st) in [("node0", &sa), ("node1", &sb)] {
                        if !st.get(k).map(|v| e.contains(v)).unwrap_or(false) {
                            causes.push((
                                "sync: digests agree but a key of a divergent bucket does not hold merge(prior_a, prior_b)".into(),
                                format!("{scenario}; key {k} on {side} holds {:?}, expected {:?}; {fin_txt}", st.get(k), e),
                            ));
                        }
                    }
                }
            }
        }
    }
    if !later.is_empty() {
        for c in causes.iter_mut() {
            c.1.push_str(&later);
        }
    }
    let final_states_equal = sa == sb;
    let one_exchange_checked = not_truncating && after_one.is_some();
    Ok(Once { init, fin, rounds, initially_divergent, final_states_equal, one_exchange_checked, causes })
}

const SYNC_MAX_ATTEMPTS: usize = 3000;
static EXTRA_ROUNDS: std::sync::atomic::AtomicUsize = std::sync::atomic::AtomicUsize::new(0);
const SYNC_MIN_ATTEMPTS: usize = 4;
const SAT_MIN: usize = 48;
const SAT_QUIET: usize = 24;

struct ScenResult {
    one_exchange: bool,
    by_saturation: bool,
    debug: String,
    attempts: usize,
    covered: bool,
    init_combos: usize,
    fin_combos: usize,
    causes: BTreeMap<String, String>,
    rounds_hist: BTreeMap<String, u64>,
    order_dependent: bool,
    nontrivial: bool,
}

/// One scenario = (config, history of node0, history of node1, limit); repeated on fresh nodes until
/// every combination of initial iteration orders (full order when the limit can truncate, else per
/// bucket) has been observed and, for runs ending with equal states on both sides, every combination
/// of final per-bucket iteration orders.
fn run_scenario(cfg: &SyncCfg, ha: &[WOp], hb: &[WOp], limit: usize) -> ScenResult {
    let mut init_seen: BTreeSet<(Vec<(usize, Vec<String>)>, Vec<(usize, Vec<String>)>, Vec<String>, Vec<String>)> = BTreeSet::new();
    let mut fin_seen: BTreeMap<(Vec<String>, Vec<String>), (usize, BTreeSet<(OrderSig, OrderSig)>)> = BTreeMap::new();
    let mut causes: BTreeMap<String, String> = BTreeMap::new();
    let mut rounds_hist: BTreeMap<String, u64> = BTreeMap::new();
    let mut outcomes: BTreeSet<(Option<usize>, Vec<String>)> = BTreeSet::new();
    let mut attempts = 0usize;
    let mut nontrivial = false;
    let mut one_exchange = false;
    let mut want_init = 1usize;
    let mut covered = false;
    let (mut equal_runs, mut last_new_combo_at, mut any_truncating, mut by_saturation) = (0usize, 0usize, false, false);
    while attempts < SYNC_MAX_ATTEMPTS {
        attempts += 1;
        let once = match catch_unwind(AssertUnwindSafe(|| run_once(cfg, ha, hb, limit))) {
            Ok(Ok(o)) => o,
            Ok(Err(e)) => {
                causes.entry("sync: harness error".into()).or_insert(e);
                break;
            }
            Err(p) => {
                causes.entry("sync: panic during run_anti_entropy_sync".into()).or_insert(format!(
                    "{} limit {} node0 {:?} node1 {:?}: {}",
                    cfg.name,
                    limit,
                    ha,
                    hb,
                    vh::panic_text(&p)
                ));
                break;
            }
        };
        nontrivial |= once.initially_divergent;
        one_exchange |= once.one_exchange_checked;
        let (na, nb) = (once.init.2.len(), once.init.3.len());
        // the full iteration order decides which keys `take(limit)` selects; if the limit cannot
        // truncate only the per-bucket order matters
        let truncating = limit < na.max(nb);
        want_init = if truncating {
            factorial(na) * factorial(nb)
        } else {
            orders_possible(&once.init.2, cfg.depth) * orders_possible(&once.init.3, cfg.depth)
        };
        let mut key = once.init.clone();
        if !truncating {
            key.2.clear();
            key.3.clear();
        }
        init_seen.insert(key);
        // the final iteration orders decide the verdict only when both sides hold the same state (then
        // the digests must agree): every combination of per-bucket orders of the two equal maps
        if once.final_states_equal {
            let mut k: Vec<String> = once.fin.0.iter().flat_map(|(_, ks)| ks.iter().cloned()).collect();
            k.sort();
            let w = orders_possible(&k, cfg.depth);
            let e = fin_seen.entry((k.clone(), k)).or_insert((w * w, BTreeSet::new()));
            equal_runs += 1;
            if e.1.insert(once.fin.clone()) {
                last_new_combo_at = equal_runs;
            }
            if truncating {
                any_truncating = true;
            }
        }
        *rounds_hist.entry(once.rounds.map(|r| r.to_string()).unwrap_or("never".into())).or_default() += 1;
        let mut sigs: Vec<String> = once.causes.iter().map(|c| c.0.clone()).collect();
        sigs.sort();
        sigs.dedup();
        outcomes.insert((once.rounds, sigs));
        for (s, d) in once.causes {
            causes.entry(s).or_insert(d);
        }
        // final orders: exact coverage; when the limit truncates, which side ends up with which order is
        // correlated with the selection (not every combination is reachable): then the set of
        // combinations must have been saturated (>= SAT_MIN equal-state runs, none new in the last SAT_QUIET)
        let fin_exact = fin_seen.values().all(|(w, s)| s.len() >= *w);
        let fin_saturated = any_truncating && equal_runs >= SAT_MIN && equal_runs - last_new_combo_at >= SAT_QUIET;
        // with truncation and several keys per bucket, intermediate digests (of unequal states that
        // differ only in unhashed components) also depend on coinciding orders: a floor of repetitions
        let floor = if truncating && (once.fin.0.iter().chain(once.fin.1.iter()).any(|(_, ks)| ks.len() > 1)) { SAT_MIN + SAT_QUIET } else { SYNC_MIN_ATTEMPTS };
        if attempts >= floor && init_seen.len() >= want_init && (fin_exact || fin_saturated) {
            covered = true;
            by_saturation = !fin_exact;
            break;
        }
    }
    let debug = if covered {
        String::new()
    } else {
        format!(
            "init seen {} of {}: {:?} ; final: {:?}",
            init_seen.len(),
            want_init,
            init_seen.iter().map(|k| (k.2.join(","), k.3.join(","))).collect::<Vec<_>>(),
            fin_seen.iter().map(|(k, (w, s))| format!("{:?} want {} seen {}", k, w, s.len())).collect::<Vec<_>>()
        )
    };
    ScenResult {
        one_exchange,
        by_saturation,
        debug,
        attempts,
        covered,
        init_combos: init_seen.len(),
        fin_combos: fin_seen.values().map(|(_, s)| s.len()).sum(),
        causes,
        rounds_hist,
        order_dependent: outcomes.len() > 1,
        nontrivial,
    }
}

fn histories(nkeys: usize, maxlen: usize) -> Vec<Vec<WOp>> {
    let mut alpha = Vec::new();
    for k in 0..nkeys {
        alpha.push(WOp::Set(k));
        alpha.push(WOp::SetEx(k));
        alpha.push(WOp::Del(k));
    }
    let mut all: Vec<Vec<WOp>> = vec![vec![]];
    let mut frontier: Vec<Vec<WOp>> = vec![vec![]];
    for _ in 0..maxlen {
        let mut next = Vec::new();
        for h in &frontier {
            for a in &alpha {
                let mut g = h.clone();
                g.push(*a);
                next.push(g);
            }
        }
        all.extend(next.iter().cloned());
        frontier = next;
    }
    all
}

/// Histories deduplicated by the replicated state they produce on the given node (shortest first).
fn distinct_histories(cfg: &SyncCfg, node: usize, maxlen: usize) -> (Vec<Vec<WOp>>, usize) {
    let all = histories(cfg.keys.len(), maxlen);
    let total = all.len();
    let mut seen: BTreeSet<BTreeMap<String, String>> = BTreeSet::new();
    let mut out = Vec::new();
    for h in all {
        let mut sim = MultiNodeSimulation::new(2, 0);
        for op in &h {
            sim.execute(node, node, wop_cmd(*op, &cfg.keys, node));
        }
        if seen.insert(canon_state(&sim.nodes[node].replica_state.replicated_keys)) {
            out.push(h);
        }
    }
    (out, total)
}

// ------------------------------------------------------------------------------------------------
// replay support
// ------------------------------------------------------------------------------------------------

/// Rebuild a value from its recipe "r1=<ops>;r2=<ops>|<delta>><delta>..." (see `value_space`).
fn value_from_recipe(r: &str) -> Option<ReplicatedValue> {
    if let Some(inner) = r.trim().strip_prefix("M(").and_then(|x| x.strip_suffix(')')) {
        let (x, y) = inner.split_once(" & ")?;
        return Some(value_from_recipe(x)?.merge(&value_from_recipe(y)?));
    }
    let (uni, seq) = r.trim().split_once('|')?;
    let (h1, h2) = uni.split_once(';')?;
    let parse = |h: &str, p: &str| -> Option<Vec<&'static str>> {
        let body = h.strip_prefix(p)?;
        let mut out = Vec::new();
        for op in body.split(',').filter(|o| !o.is_empty()) {
            out.push(*VOPS.iter().find(|v| **v == op)?);
        }
        Some(out)
    };
    let (h1, h2) = (parse(h1, "r1=")?, parse(h2, "r2=")?);
    let deltas = universe_deltas(&h1, &h2);
    let mut v: Option<ReplicatedValue> = None;
    for name in seq.split('>') {
        let d = &deltas.iter().find(|(n, _)| n == name)?.1;
        v = Some(match v {
            None => d.clone(),
            Some(x) => x.merge(d),
        });
    }
    v
}

fn content_from_json(v: &Value) -> Content {
    let mut c = Content::new();
    for e in v.as_array().cloned().unwrap_or_default() {
        let key = e["key"].as_str().unwrap_or_default().to_string();
        let recipe = e["recipe"].as_str().unwrap_or_default();
        match value_from_recipe(recipe) {
            Some(val) => {
                let want = e["value"].as_str().unwrap_or_default();
                if !want.is_empty() && canon_value(&val) != want {
                    eprintln!("replay: recipe {recipe} no longer yields {} (now {})", e["value"], canon_value(&val));
                    std::process::exit(2);
                }
                c.push((key, val));
            }
            None => {
                eprintln!("replay: cannot rebuild value from recipe {recipe:?}");
                std::process::exit(2);
            }
        }
    }
    c
}

fn replay(r: &Value) -> ! {
    let mut found: BTreeMap<String, String> = BTreeMap::new();
    if r["part"] == "sync" {
        let cfg = SyncCfg {
            depth: r["depth"].as_u64().unwrap_or(8) as usize,
            keys: r["keys"].as_array().map(|a| a.iter().filter_map(|k| k.as_str().map(String::from)).collect()).unwrap_or_default(),
            name: r["config"].as_str().unwrap_or("replay").to_string(),
        };
        let (ha, hb) = (wop_from_json(&r["ha"]), wop_from_json(&r["hb"]));
        let limit = r["limit"].as_u64().unwrap_or(1000) as usize;
        EXTRA_ROUNDS.store(100, std::sync::atomic::Ordering::Relaxed);
        let res = run_scenario(&cfg, &ha, &hb, limit);
        println!(
            "scenario repeated {} times on fresh nodes (initial order combinations {}, final {} ; all covered: {}); rounds until digests agree: {:?}",
            res.attempts, res.init_combos, res.fin_combos, res.covered, res.rounds_hist
        );
        found = res.causes;
    } else if r["part"] == "late-key" {
        if let Some(v) = late_key_case(r["shared"].as_u64().unwrap_or(0) as usize, r["limit"].as_u64().unwrap_or(1) as usize, r["late"].as_bool().unwrap_or(true), r["writer"].as_u64().unwrap_or(0) as usize) {
            found.entry(v.sig).or_insert(v.detail);
        }
    } else if r["part"] == "mixed-depth" {
        let g = |k: &str| r[k].as_u64().unwrap_or(0) as usize;
        if let Some(v) = mixed_depth_case(g("da"), g("db"), g("only_a"), g("only_b"), g("both")) {
            found.entry(v.sig).or_insert(v.detail);
        }
    } else if r["part"] == "protocol" {
        let depth = r["depth"].as_u64().unwrap_or(0) as usize;
        let (ha, hb) = (r["ha"].as_str().unwrap_or(""), r["hb"].as_str().unwrap_or(""));
        for v in protocol_case(depth, ha, hb, r["pre"].as_u64().unwrap_or(0) as usize, r["agreed"].as_u64().unwrap_or(0) as usize, r["full"].as_bool().unwrap_or(false), r["met_before"].as_bool().unwrap_or(false)).0 {
            found.entry(v.sig).or_insert(v.detail);
        }
    } else if r["part"] == "hash-sync" {
        let depth = r["depth"].as_u64().unwrap_or(0) as usize;
        let (ha, hb) = (r["ha"].as_str().unwrap_or(""), r["hb"].as_str().unwrap_or(""));
        let pre = r["pre"].as_u64().unwrap_or(0) as usize;
        println!("node 0 runs {ha:?}, node 1 runs {hb:?}, one-sided delivery {pre}, tree depth {depth}");
        for v in hash_sync_case(depth, ha, hb, pre).0 {
            found.entry(v.sig).or_insert(v.detail);
        }
    } else {
        let depth = r["depth"].as_u64().unwrap_or(0) as usize;
        let (ca, cb) = (content_from_json(&r["a"]), content_from_json(&r["b"]));
        let recipes = BTreeMap::new();
        let mut cov = Cov::default();
        let mut out = Vec::new();
        let pa = build_pool(&ca, depth, &KINDS, 1, "replay A", &recipes, &mut cov, &mut out);
        let pb = build_pool(&cb, depth, &KINDS, 1, "replay B", &recipes, &mut cov, &mut out);
        println!("A = {} : {} iteration orders observed; B = {} : {} observed", show_content(&ca), pa.len(), show_content(&cb), pb.len());
        let j = judge(&ca, &cb);
        for a in &pa {
            for b in &pb {
                match &j {
                    Judge::Equal => check_equal(depth, &ca, &cb, a, b, "replay", &recipes, &mut out),
                    Judge::Unequal(d) => check_unequal(depth, &ca, &cb, a, b, d, "replay", &recipes, &mut out),
                    Judge::InternalOnly => {}
                }
            }
        }
        for v in out {
            found.entry(v.sig).or_insert(v.detail);
        }
    }
    if found.is_empty() {
        println!("replay: no violation");
        std::process::exit(0);
    }
    for (s, d) in &found {
        println!("signature: {s}\n  {d}");
    }
    println!("VIOLATION property=C18 (replay reproduces {} signature(s))", found.len());
    std::process::exit(1);
}

// ------------------------------------------------------------------------------------------------
// main
// ------------------------------------------------------------------------------------------------

fn shuffle<T>(v: &mut [T], seed: u64) {
    let mut x = 0x9E3779B97F4A7C15u64 ^ seed.wrapping_mul(0x2545F4914F6CDD1D) | 1;
    for i in (1..v.len()).rev() {
        x ^= x << 13;
        x ^= x >> 7;
        x ^= x << 17;
        v.swap(i, (x % (i as u64 + 1)) as usize);
    }
}

fn assignments(n: usize, base: usize) -> Vec<Vec<usize>> {
    let mut out: Vec<Vec<usize>> = vec![vec![]];
    for _ in 0..n {
        let mut next = Vec::new();
        for a in &out {
            for i in 0..base {
                let mut b = a.clone();
                b.push(i);
                next.push(b);
            }
        }
        out = next;
    }
    out
}

// ------------------------------------------------------------------------------------------------
// (c) sync of hash values after a one-sided delivery
// ------------------------------------------------------------------------------------------------

/// What a node does to key "h" before the exchange (through its real ShardReplicaState).
const HOPS: &[&str] = &["-", "hset f", "hset g", "hset f; hdel f", "hset f; hset g", "set", "set; del"];

fn apply_hop(sim: &mut MultiNodeSimulation, node: usize, hop: &str) {
    let val = SDS::from_str(if node == 0 { "a" } else { "b" });
    for step in hop.split("; ") {
        let st = &mut sim.nodes[node].replica_state;
        match step {
            "-" => {}
            "hset f" => {
                st.record_hash_write("h".to_string(), vec![("f".to_string(), val.clone())]);
            }
            "hset g" => {
                st.record_hash_write("h".to_string(), vec![("g".to_string(), val.clone())]);
            }
            "hdel f" => {
                st.record_hash_delete("h".to_string(), vec!["f".to_string()]);
            }
            "set" => {
                st.record_write("h".to_string(), val.clone(), None);
            }
            "del" => {
                st.record_delete("h".to_string());
            }
            other => panic!("unknown hop {other}"),
        }
    }
}

/// Returns (violations, evaluated). `pre`: 0 nothing delivered, 1 node1's deltas reached node0 (node0's were lost),
/// 2 the reverse. Then ONE digest-driven exchange with a limit that cannot truncate.
/// Two replicas configured with DIFFERENT merkle depths (StateDigest::divergent_buckets handles digests of different
/// sizes): node 0 alone holds `only_a` keys, node 1 alone `only_b` keys, `both` keys exist on both sides with different
/// values. After ONE exchange (the per-round limit does not truncate) every key must hold the merge on both sides.
/// Digest equality is not demanded here: digests of different depths are not comparable by construction.
fn mixed_depth_case(da: usize, db: usize, only_a: usize, only_b: usize, both: usize) -> Option<Viol> {
    use redis_sim::redis::Command;
    let mut sim = MultiNodeSimulation::new(2, 0);
    sim.nodes[0].anti_entropy.config.merkle_tree_depth = da;
    sim.nodes[1].anti_entropy.config.merkle_tree_depth = db;
    for n in 0..2 {
        sim.nodes[n].anti_entropy.config.max_keys_per_sync = 100_000;
    }
    for i in 0..only_a {
        sim.execute(0, 0, Command::set(format!("a-{i}"), redis_sim::redis::SDS::from_str("va")));
    }
    for i in 0..only_b {
        sim.execute(1, 1, Command::set(format!("b-{i}"), redis_sim::redis::SDS::from_str("vb")));
    }
    for i in 0..both {
        sim.execute(0, 0, Command::set(format!("c-{i}"), redis_sim::redis::SDS::from_str("from0")));
        sim.execute(1, 1, Command::set(format!("c-{i}"), redis_sim::redis::SDS::from_str("from1")));
    }
    let prior: Vec<BTreeMap<String, ReplicatedValue>> = (0..2).map(|n| sim.nodes[n].replica_state.replicated_keys.iter().map(|(k, v)| (k.clone(), v.clone())).collect()).collect();
    sim.run_anti_entropy_sync(0, 1);
    let keys: BTreeSet<String> = prior[0].keys().chain(prior[1].keys()).cloned().collect();
    for k in &keys {
        let want = match (prior[0].get(k), prior[1].get(k)) {
            (Some(a), Some(b)) => a.merge(b),
            (Some(a), None) => a.clone(),
            (None, Some(b)) => b.clone(),
            _ => continue,
        };
        for n in 0..2 {
            let have = sim.nodes[n].replica_state.replicated_keys.get(k);
            let same = have.map(|h| vh::persist_kit::client_view(h) == vh::persist_kit::client_view(&want) && h.timestamp.time == want.timestamp.time).unwrap_or(false);
            if !same {
                return Some(Viol {
                    sig: "mixed-depth sync: one exchange leaves a key unmerged".to_string(),
                    detail: format!(
                        "node0 merkle depth {da}, node1 depth {db}; node0 alone holds {only_a} keys, node1 alone {only_b}, {both} keys differ; after one run_anti_entropy_sync (limit 100000) node{n} holds {:?} for key {k}, the merge of both sides is {}",
                        have.map(vh::persist_kit::project), vh::persist_kit::project(&want)
                    ),
                    replay: json!({"part": "mixed-depth", "da": da, "db": db, "only_a": only_a, "only_b": only_b, "both": both}),
                });
            }
        }
    }
    None
}

/// Both replicas already agree on `shared` keys (written on node 0, brought over by an unlimited exchange); then the
/// per-round limit is lowered to `limit` and ONE more key is written on one side - a key that sorts before or after all
/// the shared ones. Its bucket holds nothing else (depth 8), so the limit cannot truncate it: one exchange must bring it over.
fn late_key_case(shared: usize, limit: usize, late: bool, writer: usize) -> Option<Viol> {
    use redis_sim::redis::Command;
    let mut sim = MultiNodeSimulation::new(2, 0);
    for n in 0..2 {
        sim.nodes[n].anti_entropy.config.merkle_tree_depth = 8;
        sim.nodes[n].anti_entropy.config.max_keys_per_sync = 100_000;
    }
    for i in 0..shared {
        sim.execute(0, 0, Command::set(format!("m{i:03}"), redis_sim::redis::SDS::from_str("v")));
    }
    sim.run_anti_entropy_sync(0, 1);
    if sim.nodes[0].generate_digest().differs_from(&sim.nodes[1].generate_digest()) {
        return None; // the unlimited exchange did not equalise: other parts report that
    }
    for n in 0..2 {
        sim.nodes[n].anti_entropy.config.max_keys_per_sync = limit;
    }
    let key = if late { "zz-late".to_string() } else { "00-early".to_string() };
    // the new key must not share its bucket with a shared key (then the limit could truncate legitimately)
    if (0..shared).any(|i| bucket_of(&format!("m{i:03}"), 8) == bucket_of(&key, 8)) {
        return None;
    }
    sim.execute(writer, writer, Command::set(key.clone(), redis_sim::redis::SDS::from_str("new")));
    sim.run_anti_entropy_sync(0, 1);
    let other = 1 - writer;
    let have = sim.nodes[other].replica_state.replicated_keys.get(&key).map(vh::persist_kit::client_view);
    if have.as_deref() != Some("string:new") {
        return Some(Viol {
            sig: "sync one exchange (limit not truncating) leaves a divergent-bucket key unmerged: key outside the first max_keys_per_sync keys".to_string(),
            detail: format!(
                "both replicas agree on {shared} keys m000..; max_keys_per_sync is then set to {limit}; node{writer} writes `{key}` (which sorts {} them and is alone in its bucket); after one run_anti_entropy_sync node{other} holds {:?} for it",
                if late { "after" } else { "before" }, have
            ),
            replay: json!({"part": "late-key", "shared": shared, "limit": limit, "late": late, "writer": writer}),
        });
    }
    None
}

/// Part (f): the same two-node situations as `hash_sync_case` (plus `agreed` keys both sides hold alike), exchanged through
/// the message API of `AntiEntropyManager` instead of `run_anti_entropy_sync`: node 1 receives node 0's digest
/// (`process_peer_digest`), asks for the divergent buckets (`create_sync_request`; `full`: for everything), node 0 answers
/// (`handle_sync_request`), node 1 applies the answer; then the same with the roles swapped. The limit cannot truncate.
/// Afterwards both hold a merge of the prior values, the digests agree, and a further digest exchange reports "in sync".
fn protocol_case(depth: usize, ha: &str, hb: &str, pre: usize, agreed: usize, full: bool, met_before: bool) -> (Vec<Viol>, bool) {
    let mut sim = MultiNodeSimulation::new(2, 0);
    for n in 0..2 {
        sim.nodes[n].anti_entropy.config.max_keys_per_sync = 1000;
        sim.nodes[n].anti_entropy.config.merkle_tree_depth = depth;
    }
    for i in 0..agreed {
        sim.nodes[0].replica_state.record_write(format!("m{i:02}"), SDS::from_str("v"), None);
    }
    let d = sim.nodes[0].drain_deltas();
    sim.nodes[1].apply_remote_deltas(d);
    if met_before {
        // the two have compared digests before, while they agreed: each has the other on record as "in sync"
        let (d0, d1) = (sim.nodes[0].generate_digest(), sim.nodes[1].generate_digest());
        let _ = sim.nodes[0].anti_entropy.process_peer_digest(d1.clone(), &d0);
        let _ = sim.nodes[1].anti_entropy.process_peer_digest(d0, &d1);
    }
    apply_hop(&mut sim, 0, ha);
    apply_hop(&mut sim, 1, hb);
    let (d0, d1) = (sim.nodes[0].drain_deltas(), sim.nodes[1].drain_deltas());
    match pre {
        1 => sim.nodes[0].apply_remote_deltas(d1),
        2 => sim.nodes[1].apply_remote_deltas(d0),
        _ => {}
    }
    let prior0 = sim.nodes[0].replica_state.replicated_keys.get("h").cloned();
    let prior1 = sim.nodes[1].replica_state.replicated_keys.get("h").cloned();
    let scenario = format!(
        "message protocol{}, depth {depth}, {agreed} agreed keys, {}: node0 [{ha}] node1 [{hb}] on key h; before the exchange {}; prior node0 = {} prior node1 = {}",
        if met_before { " (the nodes had exchanged digests while they still agreed)" } else { "" },
        if full { "full-state request" } else { "request for the divergent buckets" },
        ["nothing was delivered", "node1's deltas reached node0, node0's were lost", "node0's deltas reached node1, node1's were lost"][pre],
        prior0.as_ref().map(canon_value).unwrap_or_else(|| "-".into()),
        prior1.as_ref().map(canon_value).unwrap_or_else(|| "-".into())
    );
    let replay = json!({"part": "protocol", "depth": depth, "ha": ha, "hb": hb, "pre": pre, "agreed": agreed, "full": full, "met_before": met_before});
    let mut out = Vec::new();
    let equal_prior = prior0.as_ref().map(canon_value) == prior1.as_ref().map(canon_value);
    // one direction: `asker` learns `holder`'s digest and pulls
    let pull = |sim: &mut MultiNodeSimulation, asker: usize, holder: usize| -> bool {
        let (da, dh) = (sim.nodes[asker].generate_digest(), sim.nodes[holder].generate_digest());
        let need = sim.nodes[asker].anti_entropy.process_peer_digest(dh, &da);
        let Some(buckets) = need else { return false };
        let holder_id = sim.nodes[holder].anti_entropy.replica_id;
        let req = sim.nodes[asker].anti_entropy.create_sync_request(holder_id, da, if full { None } else { Some(buckets) }, 0);
        let h = &mut sim.nodes[holder];
        let resp = h.anti_entropy.handle_sync_request(req, &h.replica_state.replicated_keys);
        sim.nodes[asker].apply_remote_deltas(resp.deltas);
        true
    };
    let asked = pull(&mut sim, 1, 0);
    if asked == equal_prior && agreed == 0 {
        // with nothing else in the map: a request is made exactly when the two values differ
        out.push(Viol {
            sig: if asked { "protocol: digests of equal states reported divergent".to_string() } else { "protocol false in-sync: prior states differ but the digest exchange asks for nothing".to_string() },
            detail: scenario.clone(),
            replay: replay.clone(),
        });
        return (out, true);
    }
    if equal_prior {
        return (out, false);
    }
    pull(&mut sim, 0, 1);
    let merges: Vec<String> = match (&prior0, &prior1) {
        (Some(a), Some(b)) => vec![canon_value(&a.merge(b)), canon_value(&b.merge(a))],
        (Some(a), None) | (None, Some(a)) => vec![canon_value(a)],
        (None, None) => vec![],
    };
    for n in 0..2 {
        let got = sim.nodes[n].replica_state.replicated_keys.get("h").map(canon_value).unwrap_or_else(|| "-".into());
        if !merges.contains(&got) {
            out.push(Viol {
                sig: "protocol: request/response in both directions leaves a side unmerged".into(),
                detail: format!("{scenario}; after node1 pulled from node0 and node0 pulled from node1, node{n} holds {got}, the merge of the prior values is {}", merges.join(" or ")),
                replay: replay.clone(),
            });
            return (out, true);
        }
    }
    // the agreed keys are still what they were, on both sides
    for i in 0..agreed {
        let k = format!("m{i:02}");
        let (a, b) = (sim.nodes[0].replica_state.replicated_keys.get(&k).map(canon_value), sim.nodes[1].replica_state.replicated_keys.get(&k).map(canon_value));
        if a != b || a.is_none() {
            out.push(Viol { sig: "protocol: an agreed key differs after the exchange".into(), detail: format!("{scenario}; key {k}: node0 {a:?} node1 {b:?}"), replay: replay.clone() });
            return (out, true);
        }
    }
    (out, true)
}

fn hash_sync_case(depth: usize, ha: &str, hb: &str, pre: usize) -> (Vec<Viol>, bool) {
    let mut sim = MultiNodeSimulation::new(2, 0);
    for n in 0..2 {
        sim.nodes[n].anti_entropy.config.max_keys_per_sync = 1000;
        sim.nodes[n].anti_entropy.config.merkle_tree_depth = depth;
    }
    apply_hop(&mut sim, 0, ha);
    apply_hop(&mut sim, 1, hb);
    let (d0, d1) = (sim.nodes[0].drain_deltas(), sim.nodes[1].drain_deltas());
    match pre {
        1 => sim.nodes[0].apply_remote_deltas(d1),
        2 => sim.nodes[1].apply_remote_deltas(d0),
        _ => {}
    }
    let prior0 = sim.nodes[0].replica_state.replicated_keys.get("h").cloned();
    let prior1 = sim.nodes[1].replica_state.replicated_keys.get("h").cloned();
    let (da, db) = (sim.nodes[0].generate_digest(), sim.nodes[1].generate_digest());
    let scenario = format!(
        "depth {depth}: node0 [{ha}] node1 [{hb}] on key h; before the exchange {}; prior node0 = {} prior node1 = {}",
        ["nothing was delivered", "node1's deltas reached node0, node0's were lost", "node0's deltas reached node1, node1's were lost"][pre],
        prior0.as_ref().map(canon_value).unwrap_or_else(|| "-".into()),
        prior1.as_ref().map(canon_value).unwrap_or_else(|| "-".into())
    );
    let replay = json!({"part": "hash-sync", "depth": depth, "ha": ha, "hb": hb, "pre": pre});
    let mut out = Vec::new();
    let equal_prior = prior0.as_ref().map(canon_value) == prior1.as_ref().map(canon_value);
    if !equal_prior && !da.differs_from(&db) {
        out.push(Viol { sig: "hash-sync false in-sync: prior states differ but digests agree".into(), detail: scenario.clone(), replay: replay.clone() });
        return (out, true);
    }
    if equal_prior {
        return (out, false);
    }
    sim.run_anti_entropy_sync(0, 1);
    // both must now hold a merge of the two prior values (either merge order is accepted)
    let merges: Vec<String> = match (&prior0, &prior1) {
        (Some(a), Some(b)) => vec![canon_value(&a.merge(b)), canon_value(&b.merge(a))],
        (Some(a), None) | (None, Some(a)) => vec![canon_value(a)],
        (None, None) => vec![],
    };
    for n in 0..2 {
        let got = sim.nodes[n].replica_state.replicated_keys.get("h").map(canon_value).unwrap_or_else(|| "-".into());
        if !merges.contains(&got) {
            out.push(Viol {
                sig: "hash-sync one exchange leaves a side unmerged".into(),
                detail: format!("{scenario}; after one exchange node{n} holds {got}, the merge of the prior values is {}", merges.join(" or ")),
                replay: replay.clone(),
            });
            break;
        }
    }
    (out, true)
}

fn main() {
    let args = cli::parse_args();
    vh::quiet_panics();
    if let Some(path) = &args.replay {
        let r = vh::report::load_replay(path);
        replay(&r);
    }
    let rep = Reporter::new("C18", "exploration", &args);
    let thorough = args.tier == Tier::Thorough;

    // ---- values
    let hist_len = args.flag("--hist").and_then(|s| s.parse().ok()).unwrap_or(if thorough { 3 } else { 2 });
    let space = value_space(hist_len);
    let vals = &space.vals;
    let recipes: BTreeMap<String, String> = vals.iter().map(|v| (v.canon.clone(), v.recipe.clone())).collect();
    let mut core_recipes = vec!["r1=W(a);r2=|1.1", "r1=;r2=W(b)|2.1", "r1=W(a),D;r2=|1.2", "r1=WX(a);r2=|1.1", "r1=;r2=H(f=x)|2.1", "r1=H(f=x),H(g=y);r2=|1.2"];
    if thorough {
        core_recipes.push("r1=W(a);r2=W(b)|1.1>2.1");
        core_recipes.push("r1=;r2=H(f=x),HD(f)|2.2");
    }
    let mut core: Vec<ReplicatedValue> = Vec::new();
    for r in &core_recipes {
        match value_from_recipe(r) {
            Some(v) if recipes.contains_key(&canon_value(&v)) => core.push(v),
            _ => rep.machinery_failure(&format!("core value {r} not in the generated value set")),
        }
    }
    let all: Vec<ReplicatedValue> = vals.iter().map(|v| v.v.clone()).collect();
    let all_ids: Vec<usize> = (0..vals.len()).collect();
    if std::env::var("VERIF_C18_DEBUG").is_ok() {
        eprintln!("values {} base {} joint pairs {} universes {} merges {}", vals.len(), space.base.len(), space.joint.len(), space.universes, space.merges);
    }

    // ---- key sets
    let mut keysets: Vec<(usize, Vec<String>)> = Vec::new();
    let mut key_notes: Vec<String> = Vec::new();
    for depth in [0usize, 1, 8] {
        let (shared, other) = pick_keys(depth);
        key_notes.push(format!("depth {depth}: keys {:?} share bucket {}, other key {:?}", shared, bucket_of(&shared[0], depth), other));
        if depth == 0 {
            for n in 1..=4 {
                keysets.push((depth, shared[..n].to_vec()));
            }
        } else {
            let o = other.unwrap();
            for n in 1..=3 {
                keysets.push((depth, shared[..n].to_vec()));
            }
            for n in 1..=3 {
                let mut k = shared[..n].to_vec();
                k.push(o.clone());
                keysets.push((depth, k));
            }
        }
    }

    // value lists of the sweeps
    let mlist: Vec<usize> = if thorough { all_ids.clone() } else { space.base.clone() };
    let mlist_len = mlist.len();

    // ---- (a) items
    let mut items: Vec<Item> = Vec::new();
    for (depth, keys) in &keysets {
        let n = keys.len();
        for assign in assignments(n, core.len()) {
            items.push(Item { depth: *depth, keys: keys.clone(), sweep: Sweep::Equal { assign } });
        }
        let nbg = if thorough { 3 } else { 1 };
        for g in 0..nbg {
            let bg: Vec<usize> = (0..n).map(|i| (i + 2 * g) % core.len()).collect();
            if g == 0 {
                for i in 0..n {
                    for j in i + 1..n {
                        items.push(Item { depth: *depth, keys: keys.clone(), sweep: Sweep::Swap { bg: bg.clone(), i, j } });
                    }
                }
            }
            for pos in 0..n {
                items.push(Item { depth: *depth, keys: keys.clone(), sweep: Sweep::Unequal { bg: bg.clone(), pos } });
                if g == 0 {
                    for vi in 0..mlist_len {
                        items.push(Item { depth: *depth, keys: keys.clone(), sweep: Sweep::MergeOrder { bg: bg.clone(), pos, vi } });
                    }
                }
            }
        }
    }
    // visiting order: a fixed pseudo-random permutation (load balance), further permuted by VERIF_SEED
    shuffle(&mut items, args.seed);
    // quick: the value list of the unequal sweep is the base set for multi-key sets and the full
    // closure for single-key sets; thorough: the full closure everywhere
    let ctx_full = Ctx { core: core.clone(), vals: all.clone(), list: all_ids.clone(), mlist: mlist.clone(), joint: space.joint.clone(), recipes: recipes.clone() };
    let part = args.flag("--part").map(|s| s.to_string());
    if part.as_deref() == Some("sync") {
        items.clear();
    }
    if let Some(sw) = args.flag("--sweep") {
        // development aid: restrict the digest part to one sweep (the run is then not exhaustive)
        items.retain(|it| match it.sweep {
            Sweep::Equal { .. } => sw == "equal",
            Sweep::Unequal { .. } => sw == "unequal",
            Sweep::MergeOrder { .. } => sw == "merge",
            Sweep::Swap { .. } => sw == "swap",
        });
    }
    let t0 = rep.elapsed_s();
    let results = par::par_map(&items, |_, it| {
        let ctx = &ctx_full;
        run_item(it, ctx)
    });
    let t_digest = rep.elapsed_s() - t0;
    let mut cov = Cov::default();
    let mut nontrivial_a = 0u64;
    let mut orders: BTreeMap<String, (usize, usize)> = BTreeMap::new();
    let mut sweep_counts: BTreeMap<&str, u64> = BTreeMap::new();
    let mut idx: Vec<usize> = (0..items.len()).collect();
    idx.sort_by_key(|&i| (items[i].keys.len(), items[i].depth, format!("{:?}", items[i])));
    for &i in &idx {
        let r = &results[i];
        cov.add(&r.cov);
        nontrivial_a += r.nontrivial;
        *sweep_counts
            .entry(match items[i].sweep {
                Sweep::Equal { .. } => "equal",
                Sweep::Unequal { .. } => "unequal",
                Sweep::MergeOrder { .. } => "merge_order",
                Sweep::Swap { .. } => "swap",
            })
            .or_default() += 1;
        let e = orders.entry(r.label.clone()).or_insert((r.orders_possible, usize::MAX));
        e.1 = e.1.min(r.orders_observed_min);
    }
    for &i in &idx {
        for v in &results[i].viols {
            rep.violation(v.sig.clone(), v.detail.clone(), v.replay.clone());
        }
    }
    let orders_json: Vec<Value> = orders
        .iter()
        .map(|(l, (p, o))| json!({"keyset": l, "iteration_orders_possible": p, "min_observed_over_all_contents": o}))
        .collect();
    let never_observed: Vec<&String> = orders.iter().filter(|(_, (p, o))| o < p).map(|(l, _)| l).collect();
    if !never_observed.is_empty() {
        rep.note(format!("iteration orders never observed within {} attempts for: {:?}", MAX_ATTEMPTS, never_observed));
    }

    // ---- (b) sync
    let k_distinct: Vec<String> = {
        let mut ks: Vec<String> = Vec::new();
        let mut i = 0;
        while ks.len() < 3 {
            let k = format!("k{i}");
            if ks.iter().all(|x| bucket_of(x, 8) != bucket_of(&k, 8)) {
                ks.push(k);
            }
            i += 1;
        }
        ks
    };
    let mut cfgs = vec![
        SyncCfg { depth: 8, keys: k_distinct.clone(), name: "depth 8 (default), keys in distinct buckets".into() },
        SyncCfg { depth: 0, keys: k_distinct.clone(), name: "depth 0, all keys in one bucket".into() },
    ];
    if thorough {
        cfgs.push(SyncCfg { depth: 8, keys: pick_keys(8).0, name: "depth 8, three keys sharing a bucket".into() });
        cfgs.push(SyncCfg { depth: 1, keys: k_distinct.clone(), name: "depth 1".into() });
    }
    let limits = [1usize, 2, 1000];
    struct Scen {
        cfg: usize,
        ha: Vec<WOp>,
        hb: Vec<WOp>,
        limit: usize,
    }
    let mut scens: Vec<Scen> = Vec::new();
    let mut hist_notes: Vec<String> = Vec::new();
    for (ci, cfg) in cfgs.iter().enumerate() {
        let (h0, total) = distinct_histories(cfg, 0, 3);
        let (h1, _) = distinct_histories(cfg, 1, 3);
        hist_notes.push(format!("{}: {} histories of <= 3 ops per node, {} distinct resulting states", cfg.name, total, h0.len()));
        for ha in &h0 {
            for hb in &h1 {
                // quick: every pair with at most 4 operations in total; thorough: every pair
                if !thorough && ha.len() + hb.len() > 4 {
                    continue;
                }
                for &limit in &limits {
                    scens.push(Scen { cfg: ci, ha: ha.clone(), hb: hb.clone(), limit });
                }
            }
        }
    }
    if part.as_deref() == Some("digest") {
        scens.clear();
    }
    shuffle(&mut scens, args.seed);
    let t1 = rep.elapsed_s();
    let sres = par::par_map(&scens, |_, s| run_scenario(&cfgs[s.cfg], &s.ha, &s.hb, s.limit));
    // ---- (c) hash values after a one-sided delivery
    let hash_items: Vec<(usize, usize, usize, usize)> = [0usize, 8]
        .iter()
        .flat_map(|d| (0..HOPS.len()).flat_map(move |a| (0..HOPS.len()).flat_map(move |b| (0..3usize).map(move |p| (*d, a, b, p)))))
        .collect();
    let hres = par::par_map(&hash_items, |_, (d, a, b, p)| hash_sync_case(*d, HOPS[*a], HOPS[*b], *p));
    let hash_sync_evaluated = hres.iter().filter(|r| r.1).count() as u64;
    {
        let mut seen = BTreeSet::new();
        for (vs, _) in &hres {
            for v in vs {
                if seen.insert(v.sig.clone()) {
                    rep.violation(v.sig.clone(), v.detail.clone(), v.replay.clone());
                }
            }
        }
    }
    // ---- (f) the same situations through the request / response messages of AntiEntropyManager
    let proto_items: Vec<(usize, usize, usize, usize, usize, bool, bool)> = hash_items
        .iter()
        .flat_map(|(d, a, b, p)| [(0usize, false, false), (3, false, false), (3, true, false), (0, false, true), (3, false, true), (3, true, true)].into_iter().map(move |(ag, full, met)| (*d, *a, *b, *p, ag, full, met)))
        .collect();
    let pres = par::par_map(&proto_items, |_, (d, a, b, p, ag, full, met)| protocol_case(*d, HOPS[*a], HOPS[*b], *p, *ag, *full, *met));
    let protocol_evaluated = pres.iter().filter(|r| r.1).count() as u64;
    {
        let mut seen = BTreeSet::new();
        for (vs, _) in &pres {
            for v in vs {
                if seen.insert(v.sig.clone()) {
                    rep.violation(v.sig.clone(), v.detail.clone(), v.replay.clone());
                }
            }
        }
    }
    // ---- (d) replicas with different merkle depths
    let mixed_items: Vec<(usize, usize, usize, usize, usize)> = [(8usize, 4usize), (4, 8), (8, 0), (0, 8), (1, 8), (8, 1), (2, 3), (12, 8)]
        .iter()
        .flat_map(|(da, db)| [(40usize, 0usize, 0usize), (0, 40, 0), (30, 10, 5), (3, 3, 40), (1, 0, 0), (0, 1, 0)].into_iter().map(move |(a, b, c)| (*da, *db, a, b, c)))
        .collect();
    let mixed_res = par::par_map(&mixed_items, |_, (da, db, a, b, c)| mixed_depth_case(*da, *db, *a, *b, *c));
    {
        let mut seen = BTreeSet::new();
        for v in mixed_res.iter().flatten() {
            if seen.insert(v.sig.clone()) {
                rep.violation(v.sig.clone(), v.detail.clone(), v.replay.clone());
            }
        }
    }
    let mixed_depth_cases = mixed_items.len() as u64;
    // ---- (e) a new key behind (or in front of) more agreed keys than the per-round limit
    let late_items: Vec<(usize, usize, bool, usize)> = [2usize, 3, 5, 12].iter().flat_map(|s| [1usize, 2, 3].into_iter().flat_map(move |l| [true, false].into_iter().flat_map(move |late| [0usize, 1].into_iter().map(move |w| (*s, l, late, w))))).collect();
    {
        let mut seen = BTreeSet::new();
        for v in par::par_map(&late_items, |_, (s, l, late, w)| late_key_case(*s, *l, *late, *w)).into_iter().flatten() {
            if seen.insert(v.sig.clone()) {
                rep.violation(v.sig.clone(), v.detail.clone(), v.replay.clone());
            }
        }
    }
    let late_key_cases = late_items.len() as u64;
    let t_sync = rep.elapsed_s() - t1;
    let mut sync_runs = 0u64;
    let mut sync_nontrivial = 0u64;
    let mut uncovered = 0u64;
    let mut order_dependent = 0u64;
    let mut saturated = 0u64;
    let mut one_exchange_scen = 0u64;
    let mut max_attempts = 0usize;
    let mut rounds_hist: BTreeMap<String, u64> = BTreeMap::new();
    let mut per_cfg: BTreeMap<String, BTreeMap<String, u64>> = BTreeMap::new();
    let mut sync_samples: Vec<Value> = Vec::new();
    let mut sidx: Vec<usize> = (0..scens.len()).collect();
    sidx.sort_by_key(|&i| (scens[i].ha.len() + scens[i].hb.len(), scens[i].cfg, scens[i].limit, scens[i].ha.clone(), scens[i].hb.clone()));
    for (s, r) in sidx.iter().map(|&i| (&scens[i], &sres[i])) {
        sync_runs += r.attempts as u64;
        if r.nontrivial {
            sync_nontrivial += 1;
        }
        if !r.covered {
            uncovered += 1;
            if uncovered <= 5 && std::env::var("VERIF_C18_DEBUG").is_ok() {
                eprintln!("uncovered: {} limit {} ha {:?} hb {:?}: {}", cfgs[s.cfg].name, s.limit, s.ha, s.hb, r.debug);
            }
        }
        if r.order_dependent {
            order_dependent += 1;
        }
        if r.by_saturation {
            saturated += 1;
        }
        if r.one_exchange {
            one_exchange_scen += 1;
        }
        max_attempts = max_attempts.max(r.attempts);
        for (k, v) in &r.rounds_hist {
            *rounds_hist.entry(k.clone()).or_default() += v;
        }
        let c = per_cfg.entry(format!("{} / limit {}", cfgs[s.cfg].name, s.limit)).or_default();
        *c.entry("scenarios".into()).or_default() += 1;
        if r.causes.is_empty() {
            *c.entry("scenarios_ok".into()).or_default() += 1;
        }
        for (sig, detail) in &r.causes {
            *c.entry(sig.clone()).or_default() += 1;
            rep.violation(
                sig.clone(),
                detail.clone(),
                json!({"part": "sync", "config": cfgs[s.cfg].name, "depth": cfgs[s.cfg].depth, "keys": cfgs[s.cfg].keys,
                       "ha": wop_json(&s.ha), "hb": wop_json(&s.hb), "limit": s.limit}),
            );
        }
        if sync_samples.len() < 3 && s.ha.len() == 2 && s.hb.len() == 1 && r.nontrivial {
            sync_samples.push(json!({
                "config": cfgs[s.cfg].name, "limit": s.limit,
                "node0": s.ha.iter().map(|o| wop_show(*o, &cfgs[s.cfg].keys, 0)).collect::<Vec<_>>(),
                "node1": s.hb.iter().map(|o| wop_show(*o, &cfgs[s.cfg].keys, 1)).collect::<Vec<_>>(),
                "repetitions_on_fresh_nodes": r.attempts, "rounds_until_digests_agree": r.rounds_hist,
                "violated": r.causes.keys().collect::<Vec<_>>(),
            }));
        }
    }
    if uncovered > 0 {
        rep.note(format!("{uncovered} sync scenarios did not show every iteration-order combination within {SYNC_MAX_ATTEMPTS} repetitions"));
    }

    let evaluations = cov.eq_comparisons + cov.neq_comparisons + sync_runs;
    let exhaustive = cov.pools_incomplete == 0 && uncovered == 0 && part.is_none() && args.flag("--sweep").is_none();
    let mut samples: Vec<Value> = vec![
        json!({"part": "digest/equal", "depth": 0, "content": "k0: lww 'a'@1.r1 ts=1.r1; k1: lww 'b'@1.r2 ts=1.r2",
               "built": "8 construction kinds x 2 insertion orders, repeated until both iteration orders [k0,k1] and [k1,k0] were observed",
               "oracle": "every instance vs the first: differs_from=false, divergent_buckets=[]"}),
        json!({"part": "digest/unequal", "depth": 8, "a": "k0: hash{g='y'@1.r2} ts=1.r2", "b": "k0: hash{f='x'@1.r1,g='y'@1.r2} ts=1.r2",
               "jointly_reachable_by": "r1=H(f=x);r2=H(g=y): delta 2.1 alone vs 2.1 merged with 1.1",
               "oracle": "differs_from=true both ways and the key's bucket listed, for every pair of iteration orders"}),
    ];
    samples.extend(sync_samples);
    let coverage = json!({
        "evaluations": evaluations,
        "distinct_nontrivial": nontrivial_a + sync_nontrivial,
        "rule": "values: for every pair of write histories (<= hist_len ops on the key: SET a/b, SET EX, DEL, HSET f/g, HDEL) of replicas 1 and 2, the real merge of every ordered sequence of distinct prefix deltas; two values are jointly reachable iff one such universe yields both. digest part: (i) every content core^n (n<=4 keys) on each key set (merkle depth 0/1/8, keys chosen so that up to 4 share a bucket), built by 8 construction kinds x every insertion order, repeated on fresh HashMaps until every per-bucket iteration order was observed, each instance compared with the first (non-trivial: >=2 keys share a bucket, i.e. more than one iteration order exists); (ii) for each key set and position, all jointly reachable pairs of distinct values (and key absent) at that position, every pair of observed iteration orders (non-trivial: the two states differ in an observable component); (iii) merge(A,B) vs merge(B,A) through apply_remote_delta for all jointly reachable value pairs, judged equal/unequal by canonical content (each pair non-trivial). sync part: every pair of write histories (deduplicated by resulting state) x max_keys_per_sync {1,2,1000} x merkle config, repeated on fresh nodes until every combination of initial iteration orders (and of final orders of equal states) was seen, after exactly ONE run_anti_entropy_sync, when the limit does not truncate (each side has <= limit keys in the divergent buckets), every divergent-bucket key must hold the merge on both sides and the digests must agree; otherwise run_anti_entropy_sync repeated #keys+1 times (non-trivial: the initial digests differ so that a sync is attempted)",
        "exhaustive": exhaustive,
        "samples": samples,
        "values": {"write_history_length_per_replica": hist_len, "universes": space.universes, "merge_sequences_evaluated": space.merges, "distinct_values": vals.len(),
                   "plain_deltas": space.base.len(), "jointly_reachable_pairs": space.joint.len(), "core": core_recipes,
                   "value_samples": vals.iter().step_by((vals.len() / 12).max(1)).map(|v| format!("{} = {}", v.recipe, v.canon)).collect::<Vec<_>>()},
        "key_selection": key_notes,
        "digest": {
            "work_items": sweep_counts, "contents": cov.contents, "contents_with_multiple_iteration_orders": cov.multi_bucket_contents,
            "map_instances_built": cov.instances, "equal_state_comparisons": cov.eq_comparisons, "unequal_state_comparisons": cov.neq_comparisons,
            "merge_order_pairs_equal_content": cov.merge_pairs_equal, "merge_order_pairs_unequal_content": cov.merge_pairs_unequal,
            "delta_built_instances_skipped_not_intended_content": cov.not_idempotent_skipped,
            "pairs_differing_only_in_internal_stamps_not_judged": cov.pairs_internal_only,
            "pairs_skipped_not_jointly_reachable_in_one_execution": cov.pairs_not_jointly_reachable,
            "iteration_orders": orders_json, "pools_missing_an_order": cov.pools_incomplete,
            "max_instances_built_for_one_content": cov.max_attempts_used, "attempt_bound": MAX_ATTEMPTS, "wall_s": t_digest,
        },
        "sync": {
            "histories": hist_notes, "scenarios": scens.len(), "scenarios_with_divergent_initial_digests": sync_nontrivial,
            "runs_on_fresh_nodes": sync_runs, "max_repetitions_of_one_scenario": max_attempts, "repetition_bound": SYNC_MAX_ATTEMPTS,
            "scenarios_with_one_exchange_oracle_limit_not_truncating": one_exchange_scen,
            "scenarios_not_covering_all_order_combinations": uncovered,
            "scenarios_whose_final_order_combinations_were_closed_by_saturation": saturated, "scenarios_whose_outcome_depends_on_iteration_order": order_dependent,
            "rounds_until_digests_agree_histogram": rounds_hist, "outcomes_per_config": per_cfg, "wall_s": t_sync,
        },
    });
    let assumptions = vec![
        "std::collections::HashMap with RandomState: iteration order of an instance is a function of its hasher keys and its insert/remove history; all orders are reachable by creating fresh instances (measured, see iteration_orders)".to_string(),
        "state equality = equality of canonical content (type, value, tombstone, LWW stamp, hash fields with stamps, expiry, stamp, vector clock, replication factor); merge(a,b) and merge(b,a) are both accepted as 'the merge' of two prior values".to_string(),
        "values: histories of <= 2 real write operations per key on replicas 1 and 2 plus one merge step; counters/sets CRDT types, vector clocks (causal mode) and per-key replication factors are not generated".to_string(),
        "sync order enumeration: initial iteration-order combinations are covered exactly; final per-bucket order combinations of equal final states are covered exactly when max_keys_per_sync cannot truncate; when it truncates, the selected keys correlate with the orders, the reachable set is not known a priori, and a scenario is closed once >= 48 equal-state runs showed no new combination during the last 24 (count reported); per-scenario counts can therefore vary minimally between runs, signatures do not".to_string(),
        "sync: two nodes, SET / SET EX / DEL on 3 keys, no gossip, no concurrent writes during the sync rounds; only the replicated state (not the executor keyspace) is compared".to_string(),
    ];
    let mut coverage = coverage;
    coverage["sync_between_replicas_of_different_merkle_depth"] = json!({"cases": mixed_depth_cases,
        "rule": "two replicas with different merkle_tree_depth ((8,4) (4,8) (8,0) (0,8) (1,8) (8,1) (2,3) (12,8)) x six key distributions (keys on one side only, on both with different values, a single key); after ONE run_anti_entropy_sync with a non-truncating limit every key holds the merge on both sides. Digest equality is not judged here: digests of different depths differ by construction"});
    coverage["new_key_next_to_more_agreed_keys_than_the_limit"] = json!({"cases": late_key_cases,
        "rule": "both replicas agree on 2/3/5/12 keys; max_keys_per_sync is set to 1/2/3; one more key that sorts after (or before) all of them and is alone in its bucket is written on either side: one exchange must bring it over"});
    coverage["request_response_messages"] = json!({"cases": proto_items.len(), "cases_with_a_divergent_pair_exchanged": protocol_evaluated,
        "rule": "the hash-sync situations (7 x 7 short histories of one key x one-sided delivery x depth 0/8) with 0 or 3 further keys both sides agree on, exchanged through process_peer_digest / create_sync_request (divergent buckets, or full state) / handle_sync_request / apply, then with the roles swapped - from managers that have never heard of each other, and from managers that compared digests earlier, while the states still agreed: both sides hold a merge of the prior values, the agreed keys are untouched; with no other key a request is made exactly when the values differ"});
    coverage["hash_sync_after_one_sided_delivery"] = json!({"cases": hash_items.len(), "cases_with_a_divergent_pair_exchanged": hash_sync_evaluated,
        "rule": "key h: each node does one of [nothing, HSET f, HSET g, HSET f + HDEL f, HSET f + HSET g, SET, SET + DEL] through its real ShardReplicaState; before the exchange nothing / only node1's deltas / only node0's deltas were delivered; merkle depth 0 and 8; then ONE run_anti_entropy_sync with a non-truncating limit: both sides must hold a merge of the two prior values"});
    rep.finish(coverage, assumptions);
}
