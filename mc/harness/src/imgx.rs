//! BYTEX helpers shared by C10 and C14 (DESIGN.md §2.1 BYTEX): image mutations (every truncation
//! length, every single-bit flip, 2-byte stomps, single-byte sets), a canonical form of
//! `Debug`-printable values that is independent of serde and of hash-map order, a counting
//! allocator that records the largest single request of the current thread, and builders for
//! replicated values.
use redis_sim::redis::SDS;
use redis_sim::replication::lattice::{
    GCounter, GSet, LamportClock, LwwRegister, ORSet, PNCounter, ReplicaId, VectorClock,
};
use redis_sim::replication::state::{CrdtValue, ReplicatedValue, ReplicationDelta};
use serde_json::{json, Value};
use std::alloc::{GlobalAlloc, Layout, System};
use std::cell::Cell;
use std::collections::HashMap;

// ---------------------------------------------------------------------------------------------
// Mutations of a byte image
// ---------------------------------------------------------------------------------------------

#[derive(Clone, Copy, Debug, PartialEq, Eq)]
pub enum Mutation {
    /// keep the first `len` bytes
    Truncate(usize),
    /// flip bit `bit` (0 = least significant) of byte `byte`
    BitFlip { byte: usize, bit: u8 },
    /// overwrite bytes `off`, `off+1` with `val`
    Stomp2 { off: usize, val: u8 },
    /// overwrite byte `off` with `val`
    SetByte { off: usize, val: u8 },
    /// overwrite the `len` bytes from `off` (clipped to the image) with `val`: an erased / zeroed block
    Fill { off: usize, len: usize, val: u8 },
}

impl Mutation {
    pub fn kind(&self) -> &'static str {
        match self {
            Mutation::Truncate(_) => "truncate",
            Mutation::BitFlip { .. } => "bitflip",
            Mutation::Stomp2 { val: 0, .. } => "stomp00",
            Mutation::Stomp2 { .. } => "stompFF",
            Mutation::SetByte { val: 0, .. } => "set00",
            Mutation::SetByte { .. } => "setFF",
            Mutation::Fill { val: 0, .. } => "fill00",
            Mutation::Fill { .. } => "fillFF",
        }
    }

    pub fn apply(&self, img: &[u8]) -> Vec<u8> {
        let mut v = img.to_vec();
        self.apply_in_place(&mut v);
        v
    }

    pub fn apply_in_place(&self, v: &mut Vec<u8>) {
        match *self {
            Mutation::Truncate(n) => v.truncate(n),
            Mutation::BitFlip { byte, bit } => v[byte] ^= 1 << bit,
            Mutation::Stomp2 { off, val } => {
                v[off] = val;
                v[off + 1] = val;
            }
            Mutation::SetByte { off, val } => v[off] = val,
            Mutation::Fill { off, len, val } => {
                let end = (off + len).min(v.len());
                for b in &mut v[off..end] {
                    *b = val;
                }
            }
        }
    }

    /// Offset of the first byte of `img` that the mutation changes or removes (None: identity).
    pub fn first_changed(&self, img: &[u8]) -> Option<usize> {
        match *self {
            Mutation::Truncate(n) => (n < img.len()).then_some(n),
            Mutation::BitFlip { byte, .. } => Some(byte),
            Mutation::Stomp2 { off, val } => {
                if img[off] != val {
                    Some(off)
                } else if img[off + 1] != val {
                    Some(off + 1)
                } else {
                    None
                }
            }
            Mutation::SetByte { off, val } => (img[off] != val).then_some(off),
            Mutation::Fill { off, len, val } => (off..(off + len).min(img.len())).find(|i| img[*i] != val),
        }
    }

    /// Offset one past the last byte changed or removed.
    pub fn last_changed_end(&self, img: &[u8]) -> Option<usize> {
        match *self {
            Mutation::Truncate(n) => (n < img.len()).then_some(img.len()),
            Mutation::BitFlip { byte, .. } => Some(byte + 1),
            Mutation::Stomp2 { off, val } => {
                if img[off + 1] != val {
                    Some(off + 2)
                } else if img[off] != val {
                    Some(off + 1)
                } else {
                    None
                }
            }
            Mutation::SetByte { off, val } => (img[off] != val).then_some(off + 1),
            Mutation::Fill { off, len, val } => (off..(off + len).min(img.len())).rev().find(|i| img[*i] != val).map(|i| i + 1),
        }
    }

    pub fn to_json(&self) -> Value {
        match *self {
            Mutation::Truncate(n) => json!({"kind": "truncate", "len": n}),
            Mutation::BitFlip { byte, bit } => json!({"kind": "bitflip", "byte": byte, "bit": bit}),
            Mutation::Stomp2 { off, val } => json!({"kind": "stomp2", "off": off, "val": val}),
            Mutation::SetByte { off, val } => json!({"kind": "setbyte", "off": off, "val": val}),
            Mutation::Fill { off, len, val } => json!({"kind": "fill", "off": off, "len": len, "val": val}),
        }
    }

    pub fn from_json(v: &Value) -> Option<Mutation> {
        let u = |k: &str| v.get(k).and_then(|x| x.as_u64());
        match v.get("kind")?.as_str()? {
            "truncate" => Some(Mutation::Truncate(u("len")? as usize)),
            "bitflip" => Some(Mutation::BitFlip { byte: u("byte")? as usize, bit: u("bit")? as u8 }),
            "stomp2" => Some(Mutation::Stomp2 { off: u("off")? as usize, val: u("val")? as u8 }),
            "setbyte" => Some(Mutation::SetByte { off: u("off")? as usize, val: u("val")? as u8 }),
            "fill" => Some(Mutation::Fill { off: u("off")? as usize, len: u("len")? as usize, val: u("val")? as u8 }),
            _ => None,
        }
    }
}

#[derive(Clone, Copy, Debug)]
pub struct MutationSet {
    /// every truncation length 0..=len (len itself is the identity, kept as a control)
    pub truncations: bool,
    /// every single-bit flip
    pub bitflips: bool,
    /// every 2-byte window, and every 4-, 8- and 32-byte block, set to 00 and to FF
    pub stomps: bool,
    /// every single byte set to 00 and to FF
    pub setbytes: bool,
}

/// All mutations of the set for an image of `len` bytes, in a fixed order.
pub fn all_mutations(len: usize, set: MutationSet) -> Vec<Mutation> {
    let mut v = Vec::new();
    if set.truncations {
        for n in 0..=len {
            v.push(Mutation::Truncate(n));
        }
    }
    if set.bitflips {
        for byte in 0..len {
            for bit in 0..8 {
                v.push(Mutation::BitFlip { byte, bit });
            }
        }
    }
    if set.stomps {
        for off in 0..len.saturating_sub(1) {
            v.push(Mutation::Stomp2 { off, val: 0x00 });
            v.push(Mutation::Stomp2 { off, val: 0xFF });
        }
        // erased / zeroed blocks of 4, 8 and 32 bytes at every offset (clipped at the end of the image)
        for width in [4usize, 8, 32] {
            for off in 0..len.saturating_sub(2) {
                v.push(Mutation::Fill { off, len: width, val: 0x00 });
                v.push(Mutation::Fill { off, len: width, val: 0xFF });
            }
        }
    }
    if set.setbytes {
        for off in 0..len {
            v.push(Mutation::SetByte { off, val: 0x00 });
            v.push(Mutation::SetByte { off, val: 0xFF });
        }
    }
    v
}

/// Named regions of an image: (name, start, end) sorted by start, covering the image.
pub type Regions = Vec<(&'static str, usize, usize)>;

pub fn region_of(regions: &Regions, off: usize) -> &'static str {
    for (name, s, e) in regions {
        if off >= *s && off < *e {
            return name;
        }
    }
    "beyond-image"
}

pub fn hex(b: &[u8]) -> String {
    let mut s = String::with_capacity(b.len() * 2);
    for x in b {
        s.push_str(&format!("{x:02x}"));
    }
    s
}

pub fn unhex(s: &str) -> Vec<u8> {
    (0..s.len() / 2).map(|i| u8::from_str_radix(&s[2 * i..2 * i + 2], 16).unwrap_or(0)).collect()
}

pub fn fnv64(b: &[u8]) -> u64 {
    let mut h: u64 = 0xcbf29ce484222325;
    for x in b {
        h ^= *x as u64;
        h = h.wrapping_mul(0x100000001b3);
    }
    h
}

// ---------------------------------------------------------------------------------------------
// Counting allocator: largest single request made by the current thread since the last reset
// ---------------------------------------------------------------------------------------------

thread_local! {
    static MAX_REQ: Cell<usize> = const { Cell::new(0) };
}

pub struct CountingAlloc;

#[inline]
fn note(size: usize) {
    let _ = MAX_REQ.try_with(|m| {
        if size > m.get() {
            m.set(size)
        }
    });
}

unsafe impl GlobalAlloc for CountingAlloc {
    unsafe fn alloc(&self, l: Layout) -> *mut u8 {
        note(l.size());
        System.alloc(l)
    }
    unsafe fn dealloc(&self, p: *mut u8, l: Layout) {
        System.dealloc(p, l)
    }
    unsafe fn alloc_zeroed(&self, l: Layout) -> *mut u8 {
        note(l.size());
        System.alloc_zeroed(l)
    }
    unsafe fn realloc(&self, p: *mut u8, l: Layout, new_size: usize) -> *mut u8 {
        note(new_size);
        System.realloc(p, l, new_size)
    }
}

pub fn alloc_reset() {
    MAX_REQ.with(|m| m.set(0));
}

pub fn alloc_max() -> usize {
    MAX_REQ.with(|m| m.get())
}

// ---------------------------------------------------------------------------------------------
// Canonical form of a Debug rendering (independent of serde; private fields included)
// ---------------------------------------------------------------------------------------------

#[derive(Debug, Clone)]
enum Node {
    Atom(String),
    Group { head: String, open: char, items: Vec<Node> },
    Pair(Box<Node>, Box<Node>),
}

struct P<'a> {
    s: &'a [u8],
    i: usize,
}

impl<'a> P<'a> {
    fn ws(&mut self) {
        while self.i < self.s.len() && self.s[self.i] == b' ' {
            self.i += 1;
        }
    }
    fn peek(&self) -> Option<u8> {
        self.s.get(self.i).copied()
    }
    fn value(&mut self) -> Node {
        self.ws();
        match self.peek() {
            Some(b'"') | Some(b'\'') => {
                let q = self.s[self.i];
                let start = self.i;
                self.i += 1;
                while self.i < self.s.len() {
                    let c = self.s[self.i];
                    if c == b'\\' {
                        self.i += 2;
                        continue;
                    }
                    self.i += 1;
                    if c == q {
                        break;
                    }
                }
                Node::Atom(String::from_utf8_lossy(&self.s[start..self.i.min(self.s.len())]).into_owned())
            }
            Some(c) if c == b'{' || c == b'[' || c == b'(' => {
                self.i += 1;
                let items = self.items(close_of(c));
                Node::Group { head: String::new(), open: c as char, items }
            }
            _ => {
                let start = self.i;
                while self.i < self.s.len() && !b" ,:{}[]()".contains(&self.s[self.i]) {
                    self.i += 1;
                }
                let head = String::from_utf8_lossy(&self.s[start..self.i]).into_owned();
                let save = self.i;
                self.ws();
                match self.peek() {
                    Some(c) if (c == b'{' || c == b'(') && !head.is_empty() => {
                        // `Name { .. }` (space) or `Name(..)` (no space)
                        if c == b'(' && save != self.i {
                            self.i = save;
                            return Node::Atom(head);
                        }
                        self.i += 1;
                        let items = self.items(close_of(c));
                        Node::Group { head, open: c as char, items }
                    }
                    _ => {
                        self.i = save;
                        Node::Atom(head)
                    }
                }
            }
        }
    }
    fn items(&mut self, close: u8) -> Vec<Node> {
        let mut out = Vec::new();
        loop {
            self.ws();
            match self.peek() {
                None => break,
                Some(c) if c == close => {
                    self.i += 1;
                    break;
                }
                _ => {}
            }
            let before = self.i;
            let v = self.value();
            self.ws();
            let item = if self.peek() == Some(b':') {
                self.i += 1;
                let w = self.value();
                Node::Pair(Box::new(v), Box::new(w))
            } else {
                v
            };
            out.push(item);
            self.ws();
            if self.peek() == Some(b',') {
                self.i += 1;
            }
            if self.i == before {
                // no progress: malformed input, skip a byte to stay total
                self.i += 1;
            }
        }
        out
    }
}

fn close_of(c: u8) -> u8 {
    match c {
        b'{' => b'}',
        b'[' => b']',
        _ => b')',
    }
}

fn render(n: &Node, out: &mut String) {
    match n {
        Node::Atom(a) => out.push_str(a),
        Node::Pair(k, v) => {
            render(k, out);
            out.push(':');
            render(v, out);
        }
        Node::Group { head, open, items } => {
            // SDS: both representations become the byte string they denote
            if head == "Inline" && *open == '{' {
                let mut len = None;
                let mut data = None;
                for it in items {
                    if let Node::Pair(k, v) = it {
                        if let Node::Atom(a) = &**k {
                            if a == "len" {
                                if let Node::Atom(n) = &**v {
                                    len = n.parse::<usize>().ok();
                                }
                            } else if a == "data" {
                                if let Node::Group { items, .. } = &**v {
                                    data = Some(items);
                                }
                            }
                        }
                    }
                }
                if let (Some(len), Some(data)) = (len, data) {
                    out.push_str("sds[");
                    for (i, d) in data.iter().take(len).enumerate() {
                        if i > 0 {
                            out.push(',');
                        }
                        render(d, out);
                    }
                    out.push(']');
                    return;
                }
            }
            if head == "Heap" && *open == '(' && items.len() == 1 {
                if let Node::Group { open: '[', items: data, .. } = &items[0] {
                    out.push_str("sds[");
                    for (i, d) in data.iter().enumerate() {
                        if i > 0 {
                            out.push(',');
                        }
                        render(d, out);
                    }
                    out.push(']');
                    return;
                }
            }
            out.push_str(head);
            out.push(*open);
            let mut parts: Vec<String> = items
                .iter()
                .map(|i| {
                    let mut s = String::new();
                    render(i, &mut s);
                    s
                })
                .collect();
            if *open == '{' {
                // maps, sets (and struct fields): order is not part of the value
                parts.sort();
            }
            out.push_str(&parts.join(","));
            out.push(close_of(*open as u8) as char);
        }
    }
}

/// Canonical text of a value: its `{:?}` rendering with every `{..}` group (hash maps, hash
/// sets, struct fields) sorted and both SDS representations reduced to their bytes.
pub fn canon<T: std::fmt::Debug>(v: &T) -> String {
    let s = format!("{v:?}");
    let mut p = P { s: s.as_bytes(), i: 0 };
    let n = p.value();
    let mut out = String::with_capacity(s.len());
    render(&n, &mut out);
    out
}

// ---------------------------------------------------------------------------------------------
// Builders for replicated values
// ---------------------------------------------------------------------------------------------

pub fn byte_strings() -> Vec<(&'static str, Vec<u8>)> {
    vec![
        ("empty", vec![]),
        ("a", b"a".to_vec()),
        ("23B", (0..23u8).map(|i| b'A' + i).collect()),
        ("24B", (0..24u8).map(|i| b'a' + i).collect()),
        ("bin-00ff0d0a", vec![0x00, 0xff, 0x0d, 0x0a]),
        ("1KiB", (0..1024u32).map(|i| (i.wrapping_mul(7).wrapping_add(3) % 256) as u8).collect()),
    ]
}

pub fn keys() -> Vec<(&'static str, String)> {
    vec![
        ("empty", String::new()),
        ("k", "k".to_string()),
        ("utf8", "ключ-鍵-🔑".to_string()),
        ("ctrl", "\u{0}\r\n\t\u{7f}\"\\".to_string()),
    ]
}

pub fn clocks() -> Vec<LamportClock> {
    vec![
        LamportClock { time: 0, replica_id: ReplicaId(0) },
        LamportClock { time: 5, replica_id: ReplicaId(1) },
        LamportClock { time: u64::MAX, replica_id: ReplicaId(u64::MAX) },
    ]
}

pub fn vclock(entries: &[(u64, u64)]) -> VectorClock {
    let mut vc = VectorClock::new();
    for (r, n) in entries {
        for _ in 0..*n {
            vc.increment(ReplicaId(*r));
        }
    }
    vc
}

/// (kind, variant label, value) for every enumerated CRDT payload.
pub fn crdt_values() -> Vec<(&'static str, String, CrdtValue)> {
    let mut out: Vec<(&'static str, String, CrdtValue)> = Vec::new();
    let strs = byte_strings();
    let cl = clocks();
    // LWW: value {None, each string} x tombstone x clock
    for (ci, c) in cl.iter().enumerate() {
        for tomb in [false, true] {
            out.push(("lww", format!("none tomb={tomb} clk{ci}"), CrdtValue::Lww(LwwRegister { value: None, timestamp: *c, tombstone: tomb })));
            for (n, s) in &strs {
                out.push((
                    "lww",
                    format!("{n} tomb={tomb} clk{ci}"),
                    CrdtValue::Lww(LwwRegister { value: Some(SDS::new(s.clone())), timestamp: *c, tombstone: tomb }),
                ));
            }
        }
    }
    // G-counters with 0..2 replicas
    let gc = |e: &[(u64, u64)]| {
        let mut g = GCounter::new();
        for (r, n) in e {
            g.increment_by(ReplicaId(*r), *n);
        }
        g
    };
    for (label, e) in [
        ("0 replicas", vec![]),
        ("r1=1", vec![(1, 1)]),
        ("r1=0", vec![(1, 0)]),
        ("rmax=max", vec![(u64::MAX, u64::MAX)]),
        ("r1=5 r2=7", vec![(1, 5), (2, 7)]),
    ] {
        out.push(("gcounter", label.to_string(), CrdtValue::GCounter(gc(&e))));
    }
    // PN-counters
    let pn = |inc: &[(u64, u64)], dec: &[(u64, u64)]| {
        let mut p = PNCounter::new();
        for (r, n) in inc {
            p.increment_by(ReplicaId(*r), *n);
        }
        for (r, n) in dec {
            p.decrement_by(ReplicaId(*r), *n);
        }
        p
    };
    for (label, i, d) in [
        ("empty", vec![], vec![]),
        ("+r1", vec![(1, 3)], vec![]),
        ("-r1", vec![], vec![(1, 4)]),
        ("+r1 -r2", vec![(1, 3)], vec![(2, u64::MAX)]),
        ("+r1+r2 -r1-r2", vec![(1, 1), (2, 2)], vec![(1, 3), (2, 4)]),
    ] {
        out.push(("pncounter", label.to_string(), CrdtValue::PNCounter(pn(&i, &d))));
    }
    // G-sets
    let gs = |e: &[&str]| {
        let mut g = GSet::new();
        for x in e {
            g.add(x.to_string());
        }
        g
    };
    let s24: String = (0..24u8).map(|i| (b'a' + i) as char).collect();
    for (label, e) in [
        ("empty", vec![]),
        ("{\"\"}", vec![""]),
        ("{a}", vec!["a"]),
        ("{a,b,24B,utf8,ctrl}", vec!["a", "b", s24.as_str(), "ключ-鍵-🔑", "\u{0}\r\n"]),
    ] {
        out.push(("gset", label.to_string(), CrdtValue::GSet(gs(&e))));
    }
    // OR-sets with several tags
    {
        out.push(("orset", "empty".into(), CrdtValue::ORSet(ORSet::new())));
        let mut o = ORSet::new();
        o.add("a".to_string(), ReplicaId(1));
        out.push(("orset", "a:1tag".into(), CrdtValue::ORSet(o)));
        let mut o = ORSet::new();
        o.add("a".to_string(), ReplicaId(1));
        o.add("a".to_string(), ReplicaId(1));
        o.add("a".to_string(), ReplicaId(2));
        o.add("b".to_string(), ReplicaId(2));
        o.add(String::new(), ReplicaId(u64::MAX));
        out.push(("orset", "a:3tags b:1tag \"\":1tag".into(), CrdtValue::ORSet(o)));
        let mut o = ORSet::new();
        o.add("a".to_string(), ReplicaId(1));
        o.remove(&"a".to_string());
        out.push(("orset", "added-then-removed".into(), CrdtValue::ORSet(o)));
        let mut o = ORSet::new();
        o.add("ключ".to_string(), ReplicaId(1));
        o.remove(&"ключ".to_string());
        o.add("ключ".to_string(), ReplicaId(1));
        o.add("\u{0}\r\n".to_string(), ReplicaId(3));
        out.push(("orset", "add-remove-add utf8 + ctrl".into(), CrdtValue::ORSet(o)));
    }
    // hashes with 0 / 1 / 3 fields, tombstoned fields included
    {
        out.push(("hash", "0 fields".into(), CrdtValue::Hash(HashMap::new())));
        for (n, s) in &strs {
            let mut h = HashMap::new();
            h.insert("f".to_string(), LwwRegister { value: Some(SDS::new(s.clone())), timestamp: cl[1], tombstone: false });
            out.push(("hash", format!("1 field {n}"), CrdtValue::Hash(h)));
        }
        let mut h = HashMap::new();
        h.insert("f".to_string(), LwwRegister { value: None, timestamp: cl[2], tombstone: true });
        out.push(("hash", "1 field tombstoned".into(), CrdtValue::Hash(h)));
        let mut h = HashMap::new();
        h.insert("live".to_string(), LwwRegister { value: Some(SDS::new(b"a".to_vec())), timestamp: cl[1], tombstone: false });
        h.insert("поле".to_string(), LwwRegister { value: None, timestamp: cl[2], tombstone: true });
        h.insert(String::new(), LwwRegister { value: Some(SDS::new(strs[4].1.clone())), timestamp: cl[0], tombstone: false });
        out.push(("hash", "3 fields live+tombstoned+binary".into(), CrdtValue::Hash(h)));
        let mut h = HashMap::new();
        h.insert("a".to_string(), LwwRegister { value: Some(SDS::new(strs[5].1.clone())), timestamp: cl[1], tombstone: false });
        h.insert("b".to_string(), LwwRegister { value: Some(SDS::new(strs[3].1.clone())), timestamp: cl[1], tombstone: true });
        h.insert("\u{0}\n".to_string(), LwwRegister { value: Some(SDS::new(vec![])), timestamp: cl[0], tombstone: false });
        out.push(("hash", "3 fields 1KiB+tombstone-with-value+empty".into(), CrdtValue::Hash(h)));
    }
    out
}

/// (label, vector clock, expiry, timestamp, replication factor) for every enumerated metadata
/// combination.
pub fn metas() -> Vec<(String, Option<VectorClock>, Option<u64>, LamportClock, Option<u8>)> {
    let mut out = Vec::new();
    let vcs: Vec<(&str, Option<VectorClock>)> = vec![
        ("vc=none", None),
        ("vc=1", Some(vclock(&[(1, 2)]))),
        ("vc=2", Some(vclock(&[(1, 1), (u64::MAX, 3)]))),
    ];
    for (vn, vc) in &vcs {
        for (en, e) in [("exp=none", None), ("exp=0", Some(0u64)), ("exp=max", Some(u64::MAX))] {
            for (ci, c) in clocks().iter().enumerate() {
                for (rn, rf) in [("rf=none", None), ("rf=1", Some(1u8)), ("rf=255", Some(255u8))] {
                    out.push((format!("{vn} {en} ts=clk{ci} {rn}"), vc.clone(), e, *c, rf));
                }
            }
        }
    }
    out
}

pub fn make_value(crdt: &CrdtValue, meta: &(String, Option<VectorClock>, Option<u64>, LamportClock, Option<u8>)) -> ReplicatedValue {
    ReplicatedValue {
        crdt: crdt.clone(),
        vector_clock: meta.1.clone(),
        expiry_ms: meta.2,
        timestamp: meta.3,
        replication_factor: meta.4,
    }
}

/// A plain LWW string delta (used for WAL file images).
pub fn lww_delta(key: &str, value: &[u8], time: u64, replica: u64) -> ReplicationDelta {
    let clock = LamportClock { time, replica_id: ReplicaId(replica) };
    ReplicationDelta::new(key.to_string(), ReplicatedValue::with_value(SDS::new(value.to_vec()), clock), ReplicaId(replica))
}

#[cfg(test)]
mod tests {
    use super::*;
    #[test]
    fn canon_sorts_maps_and_normalises_sds() {
        let mut a: HashMap<String, u32> = HashMap::new();
        let mut b: HashMap<String, u32> = HashMap::new();
        for i in 0..50 {
            a.insert(format!("k{i}"), i);
        }
        for i in (0..50).rev() {
            b.insert(format!("k{i}"), i);
        }
        assert_eq!(canon(&a), canon(&b));
        b.insert("k1".into(), 99);
        assert_ne!(canon(&a), canon(&b));
        assert_eq!(canon(&SDS::new(b"ab".to_vec())), "sds[97,98]");
        assert_eq!(canon(&SDS::Heap(b"ab".to_vec())), "sds[97,98]");
        assert_eq!(canon(&Some("a,b: {\"x}")), "Some(\"a,b: {\\\"x}\")");
    }
}
