//! Independent reference model of Redis (7.x) semantics for the supported data commands.
//! Deliberately boring: BTreeMaps and Vecs, written from the Redis documentation / t_*.c
//! behaviour, sharing no code with the implementation under check.
use crate::dump::{KeyDump, Keyspace};
use crate::resp::{esc, Argv};
use redis_sim::redis::RespValue;
use std::collections::{BTreeMap, BTreeSet};

pub type Bytes = Vec<u8>;

#[derive(Clone, Debug, PartialEq)]
pub enum MVal {
    Str(Bytes),
    List(Vec<Bytes>),
    Set(BTreeSet<Bytes>),
    Hash(BTreeMap<Bytes, Bytes>),
    /// kept sorted by (score, member)
    ZSet(Vec<(f64, Bytes)>),
}

impl MVal {
    pub fn type_name(&self) -> &'static str {
        match self {
            MVal::Str(_) => "string",
            MVal::List(_) => "list",
            MVal::Set(_) => "set",
            MVal::Hash(_) => "hash",
            MVal::ZSet(_) => "zset",
        }
    }
}

#[derive(Clone, Debug)]
pub struct Entry {
    pub val: MVal,
    /// absolute deadline in ms; key visible iff now < deadline
    pub deadline: Option<u64>,
}

/// What the model predicts for a reply, and how it is compared.
#[derive(Clone, Debug)]
pub enum Expect {
    Exact(RespValue),
    /// an error whose first word (the code) is this
    ErrCode(String),
    /// array reply, order irrelevant (multiset equality)
    Unordered(Vec<RespValue>),
    /// bulk string that parses to this float
    Float(f64),
    /// array of [member, score, member, score …] with float-compared scores (or members only)
    ZArray(Vec<(Bytes, Option<f64>)>),
    /// the model validated the nondeterministic reply itself (SPOP/SCAN/RANDOMKEY): Ok or reason
    Validated(Result<(), String>),
    /// model does not define this command
    Unsupported,
}

const WRONGTYPE: &str = "WRONGTYPE";

fn bulk(b: &[u8]) -> RespValue {
    RespValue::BulkString(Some(b.to_vec()))
}
fn nil() -> RespValue {
    RespValue::BulkString(None)
}
fn int(i: i64) -> Expect {
    Expect::Exact(RespValue::Integer(i))
}
fn ok() -> Expect {
    Expect::Exact(RespValue::SimpleString("OK".into()))
}
fn err(code: &str) -> Expect {
    Expect::ErrCode(code.to_string())
}
fn arr(items: Vec<RespValue>) -> Expect {
    Expect::Exact(RespValue::Array(Some(items)))
}

/// Redis string2ll: strict decimal i64 (no '+', no leading zeros, no spaces).
pub fn string2ll(b: &[u8]) -> Option<i64> {
    if b.is_empty() || b.len() > 20 {
        return None;
    }
    if b == b"0" {
        return Some(0);
    }
    let (neg, digits) = if b[0] == b'-' { (true, &b[1..]) } else { (false, b) };
    if digits.is_empty() || digits[0] == b'0' || !digits.iter().all(|c| c.is_ascii_digit()) {
        return None;
    }
    let mut v: i128 = 0;
    for d in digits {
        v = v * 10 + (*d - b'0') as i128;
    }
    if neg {
        v = -v;
    }
    if v < i64::MIN as i128 || v > i64::MAX as i128 {
        None
    } else {
        Some(v as i64)
    }
}

/// Redis getDoubleFromObject / strtod: whole string, no leading space, not NaN.
pub fn string2d(b: &[u8]) -> Option<f64> {
    let s = std::str::from_utf8(b).ok()?;
    if s.is_empty() || s.starts_with(char::is_whitespace) || s.ends_with(char::is_whitespace) {
        return None;
    }
    let lower = s.to_ascii_lowercase();
    let v = match lower.as_str() {
        "inf" | "+inf" | "infinity" | "+infinity" => f64::INFINITY,
        "-inf" | "-infinity" => f64::NEG_INFINITY,
        _ => {
            if lower.contains("nan") || lower.contains("inf") {
                return None;
            }
            s.parse::<f64>().ok()?
        }
    };
    if v.is_nan() {
        None
    } else {
        Some(v)
    }
}

fn up(b: &[u8]) -> String {
    String::from_utf8_lossy(b).to_ascii_uppercase()
}

/// Redis glob (stringmatchlen) without nocase: * ? [..] [^..] ranges, backslash escape.
pub fn glob(p: &[u8], s: &[u8]) -> bool {
    let (mut pi, mut si) = (0usize, 0usize);
    while pi < p.len() {
        match p[pi] {
            b'*' => {
                while pi + 1 < p.len() && p[pi + 1] == b'*' {
                    pi += 1;
                }
                if pi + 1 == p.len() {
                    return true;
                }
                for k in si..=s.len() {
                    if glob(&p[pi + 1..], &s[k..]) {
                        return true;
                    }
                }
                return false;
            }
            b'?' => {
                if si >= s.len() {
                    return false;
                }
                si += 1;
                pi += 1;
            }
            b'[' => {
                if si >= s.len() {
                    return false;
                }
                pi += 1;
                let not = pi < p.len() && p[pi] == b'^';
                if not {
                    pi += 1;
                }
                let mut matched = false;
                loop {
                    if pi >= p.len() {
                        // unterminated class: Redis backs up one and treats end as terminator
                        break;
                    }
                    if p[pi] == b'\\' && pi + 1 < p.len() {
                        pi += 1;
                        if p[pi] == s[si] {
                            matched = true;
                        }
                    } else if p[pi] == b']' {
                        break;
                    } else if pi + 2 < p.len() && p[pi + 1] == b'-' {
                        let (mut a, mut b) = (p[pi], p[pi + 2]);
                        if a > b {
                            std::mem::swap(&mut a, &mut b);
                        }
                        pi += 2;
                        if s[si] >= a && s[si] <= b {
                            matched = true;
                        }
                    } else if p[pi] == s[si] {
                        matched = true;
                    }
                    pi += 1;
                }
                if not {
                    matched = !matched;
                }
                if !matched {
                    return false;
                }
                si += 1;
                if pi < p.len() {
                    pi += 1;
                }
            }
            b'\\' if pi + 1 < p.len() => {
                pi += 1;
                if si >= s.len() || p[pi] != s[si] {
                    return false;
                }
                si += 1;
                pi += 1;
            }
            c => {
                if si >= s.len() || c != s[si] {
                    return false;
                }
                si += 1;
                pi += 1;
            }
        }
    }
    si == s.len()
}

pub fn fmt_score(f: f64) -> String {
    if f == f64::INFINITY {
        "inf".into()
    } else if f == f64::NEG_INFINITY {
        "-inf".into()
    } else {
        format!("{:?}", f)
    }
}

/// Redis score bound: "(1.5" exclusive, "-inf", "+inf", plain float.
fn parse_bound(b: &[u8]) -> Option<(f64, bool)> {
    if let Some(rest) = b.strip_prefix(b"(") {
        string2d(rest).map(|v| (v, true))
    } else {
        string2d(b).map(|v| (v, false))
    }
}

#[derive(Clone, Debug, Default)]
pub struct Model {
    pub now: u64,
    pub keys: BTreeMap<Bytes, Entry>,
}

enum Lookup<'a> {
    Missing,
    Wrong,
    Found(&'a mut Entry),
}

impl Model {
    pub fn new(now: u64) -> Self {
        Model {
            now,
            keys: BTreeMap::new(),
        }
    }

    pub fn advance(&mut self, ms: u64) {
        self.now += ms;
        self.purge();
    }

    fn purge(&mut self) {
        let now = self.now;
        self.keys.retain(|_, e| e.deadline.map(|d| d > now).unwrap_or(true));
    }

    fn get(&self, k: &[u8]) -> Option<&Entry> {
        self.keys.get(k)
    }

    fn typed(&mut self, k: &[u8], ty: &str) -> Lookup<'_> {
        match self.keys.get_mut(k) {
            None => Lookup::Missing,
            Some(e) => {
                if e.val.type_name() == ty {
                    Lookup::Found(e)
                } else {
                    Lookup::Wrong
                }
            }
        }
    }

    fn set_str(&mut self, k: &[u8], v: &[u8], keepttl: bool) {
        let deadline = if keepttl { self.keys.get(k).and_then(|e| e.deadline) } else { None };
        self.keys.insert(
            k.to_vec(),
            Entry {
                val: MVal::Str(v.to_vec()),
                deadline,
            },
        );
    }

    fn set_deadline(&mut self, k: &[u8], when: i128) {
        // when: absolute ms; <= now means the key is gone
        if when <= self.now as i128 {
            self.keys.remove(k);
        } else if let Some(e) = self.keys.get_mut(k) {
            e.deadline = Some(when.min(u64::MAX as i128) as u64);
        }
    }

    fn drop_if_empty(&mut self, k: &[u8]) {
        let empty = match self.keys.get(k).map(|e| &e.val) {
            Some(MVal::List(l)) => l.is_empty(),
            Some(MVal::Set(s)) => s.is_empty(),
            Some(MVal::Hash(h)) => h.is_empty(),
            Some(MVal::ZSet(z)) => z.is_empty(),
            _ => false,
        };
        if empty {
            self.keys.remove(k);
        }
    }

    /// Visible keyspace in the same canonical form as `dump::dump_via` (after `canon_zset`).
    pub fn keyspace(&self) -> Keyspace {
        let mut out = Keyspace::new();
        for (k, e) in &self.keys {
            let val = match &e.val {
                MVal::Str(s) => format!("${}", esc(s)),
                MVal::List(l) => format!("[{}]", l.iter().map(|x| format!("${}", esc(x))).collect::<Vec<_>>().join(",")),
                MVal::Set(s) => format!("{{{}}}", s.iter().map(|x| esc(x)).collect::<Vec<_>>().join(",")),
                MVal::Hash(h) => format!(
                    "{{{}}}",
                    h.iter().map(|(f, v)| format!("{}={}", esc(f), esc(v))).collect::<Vec<_>>().join(",")
                ),
                MVal::ZSet(z) => format!(
                    "[{}]",
                    z.iter().map(|(s, m)| format!("{}@{}", esc(m), fmt_score(*s))).collect::<Vec<_>>().join(",")
                ),
            };
            let pttl = match e.deadline {
                None => -1,
                Some(d) => (d - self.now) as i64,
            };
            out.insert(
                k.clone(),
                KeyDump {
                    ty: e.val.type_name().to_string(),
                    val,
                    pttl,
                },
            );
        }
        out
    }

    pub fn fingerprint(&self) -> String {
        format!("t={} {}", self.now, crate::dump::show_keyspace(&self.keyspace()))
    }

    fn ttl_ms(&self, k: &[u8]) -> i64 {
        match self.get(k) {
            None => -2,
            Some(e) => match e.deadline {
                None => -1,
                Some(d) => (d - self.now) as i64,
            },
        }
    }

    fn zinsert(z: &mut Vec<(f64, Bytes)>, score: f64, m: &[u8]) {
        z.retain(|(_, x)| x != m);
        let pos = z
            .iter()
            .position(|(s, x)| (*s, x.as_slice()) > (score, m) || (*s == score && x.as_slice() > m) || *s > score)
            .unwrap_or(z.len());
        z.insert(pos, (score, m.to_vec()));
        z.sort_by(|a, b| a.0.partial_cmp(&b.0).unwrap().then_with(|| a.1.cmp(&b.1)));
    }

    /// Execute one command. `hint` is the implementation's reply, used only to resolve
    /// genuinely nondeterministic commands (SPOP, RANDOMKEY) after validating it.
    pub fn exec(&mut self, a: &Argv, hint: &RespValue) -> Expect {
        self.purge();
        if a.is_empty() {
            return Expect::Unsupported;
        }
        let name = up(&a[0]);
        let n = a.len();
        let wrong_arity = || err("ERR");
        macro_rules! arity {
            ($cond:expr) => {
                if !($cond) {
                    return wrong_arity();
                }
            };
        }
        macro_rules! int_arg {
            ($e:expr) => {
                match string2ll($e) {
                    Some(v) => v,
                    None => return err("ERR"),
                }
            };
        }
        match name.as_str() {
            // ------------------------------------------------------------------ strings
            "GET" => {
                arity!(n == 2);
                match self.typed(&a[1], "string") {
                    Lookup::Missing => Expect::Exact(nil()),
                    Lookup::Wrong => err(WRONGTYPE),
                    Lookup::Found(e) => match &e.val {
                        MVal::Str(s) => Expect::Exact(bulk(s)),
                        _ => unreachable!(),
                    },
                }
            }
            "SET" => {
                arity!(n >= 3);
                let (mut nx, mut xx, mut get, mut keepttl) = (false, false, false, false);
                let mut expire: Option<(String, i64)> = None;
                let mut i = 3;
                while i < n {
                    let o = up(&a[i]);
                    match o.as_str() {
                        "NX" if !xx => nx = true,
                        "XX" if !nx => xx = true,
                        "GET" => get = true,
                        "KEEPTTL" if expire.is_none() => keepttl = true,
                        "EX" | "PX" | "EXAT" | "PXAT" if !keepttl && expire.is_none() && i + 1 < n => {
                            let v = int_arg!(&a[i + 1]);
                            expire = Some((o.clone(), v));
                            i += 1;
                        }
                        _ => return err("ERR"),
                    }
                    i += 1;
                }
                let mut when: Option<i128> = None;
                if let Some((unit, v)) = &expire {
                    if *v <= 0 {
                        return err("ERR");
                    }
                    let ms: i128 = match unit.as_str() {
                        "EX" | "EXAT" => {
                            if *v > i64::MAX / 1000 {
                                return err("ERR");
                            }
                            *v as i128 * 1000
                        }
                        _ => *v as i128,
                    };
                    let abs = if unit == "EX" || unit == "PX" { ms + self.now as i128 } else { ms };
                    if abs > i64::MAX as i128 {
                        return err("ERR");
                    }
                    when = Some(abs);
                }
                let mut old: Option<Option<Bytes>> = None;
                if get {
                    match self.typed(&a[1], "string") {
                        Lookup::Wrong => return err(WRONGTYPE),
                        Lookup::Missing => old = Some(None),
                        Lookup::Found(e) => {
                            if let MVal::Str(s) = &e.val {
                                old = Some(Some(s.clone()))
                            }
                        }
                    }
                }
                let found = self.keys.contains_key(&a[1]);
                let reply_old = |old: &Option<Option<Bytes>>| match old {
                    Some(Some(s)) => Expect::Exact(bulk(s)),
                    _ => Expect::Exact(nil()),
                };
                if (nx && found) || (xx && !found) {
                    return reply_old(&old);
                }
                self.set_str(&a[1], &a[2], keepttl);
                if let Some(w) = when {
                    self.set_deadline(&a[1], w);
                }
                if get {
                    reply_old(&old)
                } else {
                    ok()
                }
            }
            "SETNX" => {
                arity!(n == 3);
                if self.keys.contains_key(&a[1]) {
                    int(0)
                } else {
                    self.set_str(&a[1], &a[2], false);
                    int(1)
                }
            }
            "SETEX" | "PSETEX" => {
                arity!(n == 4);
                let v = int_arg!(&a[2]);
                if v <= 0 {
                    return err("ERR");
                }
                let ms: i128 = if name == "SETEX" {
                    if v > i64::MAX / 1000 {
                        return err("ERR");
                    }
                    v as i128 * 1000
                } else {
                    v as i128
                };
                let abs = ms + self.now as i128;
                if abs > i64::MAX as i128 {
                    return err("ERR");
                }
                self.set_str(&a[1], &a[3], false);
                self.set_deadline(&a[1], abs);
                ok()
            }
            "GETSET" => {
                arity!(n == 3);
                let old = match self.typed(&a[1], "string") {
                    Lookup::Wrong => return err(WRONGTYPE),
                    Lookup::Missing => nil(),
                    Lookup::Found(e) => match &e.val {
                        MVal::Str(s) => bulk(s),
                        _ => unreachable!(),
                    },
                };
                self.set_str(&a[1], &a[2], false);
                Expect::Exact(old)
            }
            "GETDEL" => {
                arity!(n == 2);
                match self.typed(&a[1], "string") {
                    Lookup::Wrong => err(WRONGTYPE),
                    Lookup::Missing => Expect::Exact(nil()),
                    Lookup::Found(e) => {
                        let r = match &e.val {
                            MVal::Str(s) => bulk(s),
                            _ => unreachable!(),
                        };
                        self.keys.remove(&a[1]);
                        Expect::Exact(r)
                    }
                }
            }
            "GETEX" => {
                arity!(n >= 2);
                let mut persist = false;
                let mut expire: Option<(String, Bytes)> = None;
                let mut i = 2;
                while i < n {
                    let o = up(&a[i]);
                    match o.as_str() {
                        "PERSIST" if expire.is_none() && !persist => persist = true,
                        "EX" | "PX" | "EXAT" | "PXAT" if !persist && expire.is_none() && i + 1 < n => {
                            expire = Some((o.clone(), a[i + 1].clone()));
                            i += 1;
                        }
                        _ => return err("ERR"),
                    }
                    i += 1;
                }
                // getexCommand: lookup (nil / WRONGTYPE) comes before validating the expire value
                let cur = match self.typed(&a[1], "string") {
                    Lookup::Wrong => return err(WRONGTYPE),
                    Lookup::Missing => return Expect::Exact(nil()),
                    Lookup::Found(e) => match &e.val {
                        MVal::Str(s) => s.clone(),
                        _ => unreachable!(),
                    },
                };
                let mut when: Option<i128> = None;
                if let Some((unit, raw)) = &expire {
                    let v = int_arg!(raw);
                    if v <= 0 {
                        return err("ERR");
                    }
                    let ms: i128 = match unit.as_str() {
                        "EX" | "EXAT" => {
                            if v > i64::MAX / 1000 {
                                return err("ERR");
                            }
                            v as i128 * 1000
                        }
                        _ => v as i128,
                    };
                    let abs = if unit == "EX" || unit == "PX" { ms + self.now as i128 } else { ms };
                    if abs > i64::MAX as i128 {
                        return err("ERR");
                    }
                    when = Some(abs);
                }
                if persist {
                    if let Some(e) = self.keys.get_mut(&a[1]) {
                        e.deadline = None;
                    }
                }
                if let Some(w) = when {
                    self.set_deadline(&a[1], w);
                }
                Expect::Exact(bulk(&cur))
            }
            "APPEND" => {
                arity!(n == 3);
                match self.typed(&a[1], "string") {
                    Lookup::Wrong => err(WRONGTYPE),
                    Lookup::Missing => {
                        self.set_str(&a[1], &a[2], false);
                        int(a[2].len() as i64)
                    }
                    Lookup::Found(e) => {
                        if let MVal::Str(s) = &mut e.val {
                            s.extend_from_slice(&a[2]);
                            int(s.len() as i64)
                        } else {
                            unreachable!()
                        }
                    }
                }
            }
            "SETBIT" => {
                arity!(n == 4);
                // Redis: offset and bit are validated before the key is looked up
                let off = match string2ll(&a[2]) {
                    Some(v) if (0..(1i64 << 32)).contains(&v) => v as usize,
                    _ => return err("ERR"),
                };
                let bit = match string2ll(&a[3]) {
                    Some(0) => 0u8,
                    Some(1) => 1u8,
                    _ => return err("ERR"),
                };
                let (byte, mask) = (off / 8, 0x80u8 >> (off % 8));
                match self.typed(&a[1], "string") {
                    Lookup::Wrong => err(WRONGTYPE),
                    Lookup::Missing => {
                        let mut s = vec![0u8; byte + 1];
                        if bit == 1 {
                            s[byte] |= mask;
                        }
                        self.set_str(&a[1], &s, false);
                        int(0)
                    }
                    Lookup::Found(e) => {
                        if let MVal::Str(s) = &mut e.val {
                            if s.len() < byte + 1 {
                                s.resize(byte + 1, 0);
                            }
                            let old = (s[byte] & mask != 0) as i64;
                            if bit == 1 {
                                s[byte] |= mask;
                            } else {
                                s[byte] &= !mask;
                            }
                            int(old)
                        } else {
                            unreachable!()
                        }
                    }
                }
            }
            "GETBIT" => {
                arity!(n == 3);
                let off = match string2ll(&a[2]) {
                    Some(v) if (0..(1i64 << 32)).contains(&v) => v as usize,
                    _ => return err("ERR"),
                };
                match self.typed(&a[1], "string") {
                    Lookup::Wrong => err(WRONGTYPE),
                    Lookup::Missing => int(0),
                    Lookup::Found(e) => match &e.val {
                        MVal::Str(s) => int(s.get(off / 8).map(|b| (b & (0x80u8 >> (off % 8)) != 0) as i64).unwrap_or(0)),
                        _ => unreachable!(),
                    },
                }
            }
            "STRLEN" => {
                arity!(n == 2);
                match self.typed(&a[1], "string") {
                    Lookup::Wrong => err(WRONGTYPE),
                    Lookup::Missing => int(0),
                    Lookup::Found(e) => match &e.val {
                        MVal::Str(s) => int(s.len() as i64),
                        _ => unreachable!(),
                    },
                }
            }
            "GETRANGE" | "SUBSTR" => {
                arity!(n == 4);
                let start = int_arg!(&a[2]);
                let end = int_arg!(&a[3]);
                match self.typed(&a[1], "string") {
                    Lookup::Wrong => err(WRONGTYPE),
                    Lookup::Missing => Expect::Exact(bulk(b"")),
                    Lookup::Found(e) => {
                        let s = match &e.val {
                            MVal::Str(s) => s.clone(),
                            _ => unreachable!(),
                        };
                        let len = s.len() as i128;
                        let (mut st, mut en) = (start as i128, end as i128);
                        if st < 0 && en < 0 && st > en {
                            return Expect::Exact(bulk(b""));
                        }
                        if st < 0 {
                            st += len;
                        }
                        if en < 0 {
                            en += len;
                        }
                        if st < 0 {
                            st = 0;
                        }
                        if en < 0 {
                            en = 0;
                        }
                        if en >= len {
                            en = len - 1;
                        }
                        if st > en || len == 0 {
                            Expect::Exact(bulk(b""))
                        } else {
                            Expect::Exact(bulk(&s[st as usize..=en as usize]))
                        }
                    }
                }
            }
            "SETRANGE" => {
                arity!(n == 4);
                let off = int_arg!(&a[2]);
                if off < 0 {
                    return err("ERR");
                }
                let v = &a[3];
                match self.typed(&a[1], "string") {
                    Lookup::Wrong => err(WRONGTYPE),
                    Lookup::Missing => {
                        if v.is_empty() {
                            return int(0);
                        }
                        if off as i128 + v.len() as i128 > 512 * 1024 * 1024 {
                            return err("ERR");
                        }
                        let mut s = vec![0u8; off as usize];
                        s.extend_from_slice(v);
                        let l = s.len();
                        self.set_str(&a[1], &s, false);
                        int(l as i64)
                    }
                    Lookup::Found(e) => {
                        if let MVal::Str(s) = &mut e.val {
                            if v.is_empty() {
                                return int(s.len() as i64);
                            }
                            if off as i128 + v.len() as i128 > 512 * 1024 * 1024 {
                                return err("ERR");
                            }
                            let need = off as usize + v.len();
                            if s.len() < need {
                                s.resize(need, 0);
                            }
                            s[off as usize..need].copy_from_slice(v);
                            int(s.len() as i64)
                        } else {
                            unreachable!()
                        }
                    }
                }
            }
            "MGET" => {
                arity!(n >= 2);
                let items = a[1..]
                    .iter()
                    .map(|k| match self.get(k).map(|e| &e.val) {
                        Some(MVal::Str(s)) => bulk(s),
                        _ => nil(),
                    })
                    .collect();
                arr(items)
            }
            "MSET" => {
                arity!(n >= 3 && n % 2 == 1);
                for p in a[1..].chunks(2) {
                    self.set_str(&p[0], &p[1], false);
                }
                ok()
            }
            "MSETNX" => {
                arity!(n >= 3 && n % 2 == 1);
                if a[1..].chunks(2).any(|p| self.keys.contains_key(&p[0])) {
                    return int(0);
                }
                for p in a[1..].chunks(2) {
                    self.set_str(&p[0], &p[1], false);
                }
                int(1)
            }
            "INCR" | "DECR" | "INCRBY" | "DECRBY" => {
                let by: i64 = match name.as_str() {
                    "INCR" => {
                        arity!(n == 2);
                        1
                    }
                    "DECR" => {
                        arity!(n == 2);
                        -1
                    }
                    "INCRBY" => {
                        arity!(n == 3);
                        int_arg!(&a[2])
                    }
                    _ => {
                        arity!(n == 3);
                        let d = int_arg!(&a[2]);
                        if d == i64::MIN {
                            return err("ERR");
                        }
                        -d
                    }
                };
                let cur = match self.typed(&a[1], "string") {
                    Lookup::Wrong => return err(WRONGTYPE),
                    Lookup::Missing => 0,
                    Lookup::Found(e) => match &e.val {
                        MVal::Str(s) => match string2ll(s) {
                            Some(v) => v,
                            None => return err("ERR"),
                        },
                        _ => unreachable!(),
                    },
                };
                match cur.checked_add(by) {
                    None => err("ERR"),
                    Some(v) => {
                        self.set_str(&a[1], v.to_string().as_bytes(), true);
                        int(v)
                    }
                }
            }
            "INCRBYFLOAT" => {
                arity!(n == 3);
                let by = match string2d(&a[2]) {
                    Some(v) => v,
                    None => return err("ERR"),
                };
                let cur = match self.typed(&a[1], "string") {
                    Lookup::Wrong => return err(WRONGTYPE),
                    Lookup::Missing => 0.0,
                    Lookup::Found(e) => match &e.val {
                        MVal::Str(s) => match string2d(s) {
                            Some(v) => v,
                            None => return err("ERR"),
                        },
                        _ => unreachable!(),
                    },
                };
                let v = cur + by;
                if v.is_nan() || v.is_infinite() {
                    return err("ERR");
                }
                let s = fmt_human(v);
                self.set_str(&a[1], s.as_bytes(), true);
                Expect::Float(v)
            }
            // ------------------------------------------------------------------ keys
            "DEL" | "UNLINK" => {
                arity!(n >= 2);
                let mut c = 0;
                for k in &a[1..] {
                    if self.keys.remove(k).is_some() {
                        c += 1;
                    }
                }
                int(c)
            }
            "EXISTS" => {
                arity!(n >= 2);
                int(a[1..].iter().filter(|k| self.keys.contains_key(*k)).count() as i64)
            }
            "TYPE" => {
                arity!(n == 2);
                let t = self.get(&a[1]).map(|e| e.val.type_name()).unwrap_or("none");
                Expect::Exact(RespValue::SimpleString(t.to_string().into()))
            }
            "KEYS" => {
                arity!(n == 2);
                Expect::Unordered(self.keys.keys().filter(|k| glob(&a[1], k)).map(|k| bulk(k)).collect())
            }
            "DBSIZE" => {
                arity!(n == 1);
                int(self.keys.len() as i64)
            }
            "FLUSHDB" | "FLUSHALL" => {
                self.keys.clear();
                ok()
            }
            "RANDOMKEY" => {
                arity!(n == 1);
                let r = match hint {
                    RespValue::BulkString(None) if self.keys.is_empty() => Ok(()),
                    RespValue::BulkString(Some(k)) if self.keys.contains_key(k) => Ok(()),
                    other => Err(format!("RANDOMKEY returned {} but keys are {:?}", crate::resp::show(other), self.keys.keys().map(|k| esc(k)).collect::<Vec<_>>())),
                };
                Expect::Validated(r)
            }
            "RENAME" | "RENAMENX" => {
                arity!(n == 3);
                if !self.keys.contains_key(&a[1]) {
                    return err("ERR");
                }
                let nxv = name == "RENAMENX";
                if a[1] == a[2] {
                    return if nxv { int(0) } else { ok() };
                }
                if nxv && self.keys.contains_key(&a[2]) {
                    return int(0);
                }
                let e = self.keys.remove(&a[1]).unwrap();
                self.keys.insert(a[2].clone(), e);
                if nxv {
                    int(1)
                } else {
                    ok()
                }
            }
            "EXPIRE" | "PEXPIRE" | "EXPIREAT" | "PEXPIREAT" => {
                arity!(n >= 3);
                let v = int_arg!(&a[2]);
                let (mut nx, mut xx, mut gt, mut lt) = (false, false, false, false);
                for o in &a[3..] {
                    match up(o).as_str() {
                        "NX" => nx = true,
                        "XX" => xx = true,
                        "GT" => gt = true,
                        "LT" => lt = true,
                        _ => return err("ERR"),
                    }
                }
                if nx && (xx || gt || lt) {
                    return err("ERR");
                }
                if gt && lt {
                    return err("ERR");
                }
                let secs = name == "EXPIRE" || name == "EXPIREAT";
                let rel = name == "EXPIRE" || name == "PEXPIRE";
                let mut when = v as i128;
                if secs {
                    if v > i64::MAX / 1000 || v < i64::MIN / 1000 {
                        return err("ERR");
                    }
                    when *= 1000;
                }
                if rel {
                    when += self.now as i128;
                    if when > i64::MAX as i128 {
                        return err("ERR");
                    }
                }
                let cur = match self.get(&a[1]) {
                    None => return int(0),
                    Some(e) => e.deadline,
                };
                if nx && cur.is_some() {
                    return int(0);
                }
                if xx && cur.is_none() {
                    return int(0);
                }
                if gt && (cur.is_none() || when <= cur.unwrap() as i128) {
                    return int(0);
                }
                if lt && cur.is_some() && when >= cur.unwrap() as i128 {
                    return int(0);
                }
                self.set_deadline(&a[1], when);
                int(1)
            }
            "TTL" => {
                arity!(n == 2);
                let t = self.ttl_ms(&a[1]);
                int(if t < 0 { t } else { (t + 500) / 1000 })
            }
            "PTTL" => {
                arity!(n == 2);
                int(self.ttl_ms(&a[1]))
            }
            "EXPIRETIME" | "PEXPIRETIME" => {
                arity!(n == 2);
                match self.get(&a[1]) {
                    None => int(-2),
                    Some(e) => match e.deadline {
                        None => int(-1),
                        Some(d) => int(if name == "EXPIRETIME" { ((d + 500) / 1000) as i64 } else { d as i64 }),
                    },
                }
            }
            "PERSIST" => {
                arity!(n == 2);
                match self.keys.get_mut(&a[1]) {
                    Some(e) if e.deadline.is_some() => {
                        e.deadline = None;
                        int(1)
                    }
                    _ => int(0),
                }
            }
            // ------------------------------------------------------------------ lists
            "LPUSH" | "RPUSH" => {
                arity!(n >= 3);
                match self.typed(&a[1], "list") {
                    Lookup::Wrong => return err(WRONGTYPE),
                    Lookup::Missing => {
                        self.keys.insert(
                            a[1].clone(),
                            Entry {
                                val: MVal::List(vec![]),
                                deadline: None,
                            },
                        );
                    }
                    Lookup::Found(_) => {}
                }
                if let Some(Entry { val: MVal::List(l), .. }) = self.keys.get_mut(&a[1]) {
                    for v in &a[2..] {
                        if name == "LPUSH" {
                            l.insert(0, v.clone());
                        } else {
                            l.push(v.clone());
                        }
                    }
                    int(l.len() as i64)
                } else {
                    unreachable!()
                }
            }
            "LPOP" | "RPOP" => {
                arity!(n == 2);
                let r = match self.typed(&a[1], "list") {
                    Lookup::Wrong => return err(WRONGTYPE),
                    Lookup::Missing => return Expect::Exact(nil()),
                    Lookup::Found(e) => {
                        if let MVal::List(l) = &mut e.val {
                            if name == "LPOP" {
                                l.remove(0)
                            } else {
                                l.pop().unwrap()
                            }
                        } else {
                            unreachable!()
                        }
                    }
                };
                self.drop_if_empty(&a[1]);
                Expect::Exact(bulk(&r))
            }
            "LLEN" => {
                arity!(n == 2);
                match self.typed(&a[1], "list") {
                    Lookup::Wrong => err(WRONGTYPE),
                    Lookup::Missing => int(0),
                    Lookup::Found(e) => match &e.val {
                        MVal::List(l) => int(l.len() as i64),
                        _ => unreachable!(),
                    },
                }
            }
            "LINDEX" => {
                arity!(n == 3);
                let idx = int_arg!(&a[2]);
                match self.typed(&a[1], "list") {
                    Lookup::Wrong => err(WRONGTYPE),
                    Lookup::Missing => Expect::Exact(nil()),
                    Lookup::Found(e) => match &e.val {
                        MVal::List(l) => {
                            let i = if idx < 0 { idx as i128 + l.len() as i128 } else { idx as i128 };
                            if i < 0 || i >= l.len() as i128 {
                                Expect::Exact(nil())
                            } else {
                                Expect::Exact(bulk(&l[i as usize]))
                            }
                        }
                        _ => unreachable!(),
                    },
                }
            }
            "LRANGE" => {
                arity!(n == 4);
                let s = int_arg!(&a[2]);
                let e_ = int_arg!(&a[3]);
                match self.typed(&a[1], "list") {
                    Lookup::Wrong => err(WRONGTYPE),
                    Lookup::Missing => arr(vec![]),
                    Lookup::Found(e) => match &e.val {
                        MVal::List(l) => match norm_range(s, e_, l.len()) {
                            None => arr(vec![]),
                            Some((x, y)) => arr(l[x..=y].iter().map(|b| bulk(b)).collect()),
                        },
                        _ => unreachable!(),
                    },
                }
            }
            "LSET" => {
                arity!(n == 4);
                let idx = int_arg!(&a[2]);
                match self.typed(&a[1], "list") {
                    Lookup::Wrong => err(WRONGTYPE),
                    Lookup::Missing => err("ERR"),
                    Lookup::Found(e) => {
                        if let MVal::List(l) = &mut e.val {
                            let i = if idx < 0 { idx as i128 + l.len() as i128 } else { idx as i128 };
                            if i < 0 || i >= l.len() as i128 {
                                err("ERR")
                            } else {
                                l[i as usize] = a[3].clone();
                                ok()
                            }
                        } else {
                            unreachable!()
                        }
                    }
                }
            }
            "LTRIM" => {
                arity!(n == 4);
                let s = int_arg!(&a[2]);
                let e_ = int_arg!(&a[3]);
                match self.typed(&a[1], "list") {
                    Lookup::Wrong => return err(WRONGTYPE),
                    Lookup::Missing => return ok(),
                    Lookup::Found(e) => {
                        if let MVal::List(l) = &mut e.val {
                            match norm_range(s, e_, l.len()) {
                                None => l.clear(),
                                Some((x, y)) => *l = l[x..=y].to_vec(),
                            }
                        }
                    }
                }
                self.drop_if_empty(&a[1]);
                ok()
            }
            "RPOPLPUSH" | "LMOVE" => {
                let (from_left, to_left) = if name == "RPOPLPUSH" {
                    arity!(n == 3);
                    (false, true)
                } else {
                    arity!(n == 5);
                    let f = match up(&a[3]).as_str() {
                        "LEFT" => true,
                        "RIGHT" => false,
                        _ => return err("ERR"),
                    };
                    let t = match up(&a[4]).as_str() {
                        "LEFT" => true,
                        "RIGHT" => false,
                        _ => return err("ERR"),
                    };
                    (f, t)
                };
                match self.typed(&a[1], "list") {
                    Lookup::Wrong => return err(WRONGTYPE),
                    Lookup::Missing => return Expect::Exact(nil()),
                    Lookup::Found(_) => {}
                }
                if let Lookup::Wrong = self.typed(&a[2], "list") {
                    return err(WRONGTYPE);
                }
                let v = if let Some(Entry { val: MVal::List(l), .. }) = self.keys.get_mut(&a[1]) {
                    if from_left {
                        l.remove(0)
                    } else {
                        l.pop().unwrap()
                    }
                } else {
                    unreachable!()
                };
                if a[1] != a[2] {
                    self.drop_if_empty(&a[1]);
                }
                let ent = self.keys.entry(a[2].clone()).or_insert(Entry {
                    val: MVal::List(vec![]),
                    deadline: None,
                });
                if let MVal::List(l) = &mut ent.val {
                    if to_left {
                        l.insert(0, v.clone());
                    } else {
                        l.push(v.clone());
                    }
                }
                Expect::Exact(bulk(&v))
            }
            // ------------------------------------------------------------------ sets
            "SADD" => {
                arity!(n >= 3);
                match self.typed(&a[1], "set") {
                    Lookup::Wrong => return err(WRONGTYPE),
                    Lookup::Missing => {
                        self.keys.insert(
                            a[1].clone(),
                            Entry {
                                val: MVal::Set(BTreeSet::new()),
                                deadline: None,
                            },
                        );
                    }
                    Lookup::Found(_) => {}
                }
                if let Some(Entry { val: MVal::Set(s), .. }) = self.keys.get_mut(&a[1]) {
                    let mut c = 0;
                    for m in &a[2..] {
                        if s.insert(m.clone()) {
                            c += 1;
                        }
                    }
                    int(c)
                } else {
                    unreachable!()
                }
            }
            "SREM" => {
                arity!(n >= 3);
                let c = match self.typed(&a[1], "set") {
                    Lookup::Wrong => return err(WRONGTYPE),
                    Lookup::Missing => return int(0),
                    Lookup::Found(e) => {
                        if let MVal::Set(s) = &mut e.val {
                            a[2..].iter().filter(|m| s.remove(*m)).count()
                        } else {
                            unreachable!()
                        }
                    }
                };
                self.drop_if_empty(&a[1]);
                int(c as i64)
            }
            "SMEMBERS" => {
                arity!(n == 2);
                match self.typed(&a[1], "set") {
                    Lookup::Wrong => err(WRONGTYPE),
                    Lookup::Missing => Expect::Unordered(vec![]),
                    Lookup::Found(e) => match &e.val {
                        MVal::Set(s) => Expect::Unordered(s.iter().map(|m| bulk(m)).collect()),
                        _ => unreachable!(),
                    },
                }
            }
            "SISMEMBER" => {
                arity!(n == 3);
                match self.typed(&a[1], "set") {
                    Lookup::Wrong => err(WRONGTYPE),
                    Lookup::Missing => int(0),
                    Lookup::Found(e) => match &e.val {
                        MVal::Set(s) => int(s.contains(&a[2]) as i64),
                        _ => unreachable!(),
                    },
                }
            }
            "SCARD" => {
                arity!(n == 2);
                match self.typed(&a[1], "set") {
                    Lookup::Wrong => err(WRONGTYPE),
                    Lookup::Missing => int(0),
                    Lookup::Found(e) => match &e.val {
                        MVal::Set(s) => int(s.len() as i64),
                        _ => unreachable!(),
                    },
                }
            }
            "SPOP" => {
                arity!(n == 2 || n == 3);
                let count = if n == 3 {
                    let c = int_arg!(&a[2]);
                    if c < 0 {
                        return err("ERR");
                    }
                    Some(c as usize)
                } else {
                    None
                };
                let r = match self.typed(&a[1], "set") {
                    Lookup::Wrong => return err(WRONGTYPE),
                    Lookup::Missing => {
                        return match count {
                            None => Expect::Exact(nil()),
                            Some(_) => arr(vec![]),
                        }
                    }
                    Lookup::Found(e) => {
                        let s = match &mut e.val {
                            MVal::Set(s) => s,
                            _ => unreachable!(),
                        };
                        match (count, hint) {
                            (None, RespValue::BulkString(Some(m))) if s.contains(m) => {
                                s.remove(m);
                                Ok(())
                            }
                            (Some(c), RespValue::Array(Some(items))) => {
                                let want = c.min(s.len());
                                let mut got: BTreeSet<Bytes> = BTreeSet::new();
                                let mut bad = None;
                                for it in items {
                                    match it {
                                        RespValue::BulkString(Some(m)) if s.contains(m) && !got.contains(m) => {
                                            got.insert(m.clone());
                                        }
                                        other => bad = Some(crate::resp::show(other)),
                                    }
                                }
                                if let Some(b) = bad {
                                    Err(format!("SPOP returned {b}, not a distinct member"))
                                } else if got.len() != want {
                                    Err(format!("SPOP count {c} on {} members returned {} items", s.len(), got.len()))
                                } else {
                                    for m in &got {
                                        s.remove(m);
                                    }
                                    Ok(())
                                }
                            }
                            (_, other) => Err(format!(
                                "SPOP returned {} for set {:?}",
                                crate::resp::show(other),
                                s.iter().map(|m| esc(m)).collect::<Vec<_>>()
                            )),
                        }
                    }
                };
                self.drop_if_empty(&a[1]);
                Expect::Validated(r)
            }
            // ------------------------------------------------------------------ hashes
            "HSET" => {
                arity!(n >= 4 && n % 2 == 0);
                match self.typed(&a[1], "hash") {
                    Lookup::Wrong => return err(WRONGTYPE),
                    Lookup::Missing => {
                        self.keys.insert(
                            a[1].clone(),
                            Entry {
                                val: MVal::Hash(BTreeMap::new()),
                                deadline: None,
                            },
                        );
                    }
                    Lookup::Found(_) => {}
                }
                if let Some(Entry { val: MVal::Hash(h), .. }) = self.keys.get_mut(&a[1]) {
                    let mut c = 0;
                    for p in a[2..].chunks(2) {
                        if h.insert(p[0].clone(), p[1].clone()).is_none() {
                            c += 1;
                        }
                    }
                    int(c)
                } else {
                    unreachable!()
                }
            }
            "HGET" | "HEXISTS" => {
                arity!(n == 3);
                match self.typed(&a[1], "hash") {
                    Lookup::Wrong => err(WRONGTYPE),
                    Lookup::Missing => {
                        if name == "HGET" {
                            Expect::Exact(nil())
                        } else {
                            int(0)
                        }
                    }
                    Lookup::Found(e) => match &e.val {
                        MVal::Hash(h) => {
                            if name == "HGET" {
                                Expect::Exact(h.get(&a[2]).map(|v| bulk(v)).unwrap_or_else(nil))
                            } else {
                                int(h.contains_key(&a[2]) as i64)
                            }
                        }
                        _ => unreachable!(),
                    },
                }
            }
            "HDEL" => {
                arity!(n >= 3);
                let c = match self.typed(&a[1], "hash") {
                    Lookup::Wrong => return err(WRONGTYPE),
                    Lookup::Missing => return int(0),
                    Lookup::Found(e) => {
                        if let MVal::Hash(h) = &mut e.val {
                            a[2..].iter().filter(|f| h.remove(*f).is_some()).count()
                        } else {
                            unreachable!()
                        }
                    }
                };
                self.drop_if_empty(&a[1]);
                int(c as i64)
            }
            "HGETALL" | "HKEYS" | "HVALS" | "HLEN" => {
                arity!(n == 2);
                match self.typed(&a[1], "hash") {
                    Lookup::Wrong => err(WRONGTYPE),
                    Lookup::Missing => {
                        if name == "HLEN" {
                            int(0)
                        } else {
                            Expect::Unordered(vec![])
                        }
                    }
                    Lookup::Found(e) => match &e.val {
                        MVal::Hash(h) => match name.as_str() {
                            "HLEN" => int(h.len() as i64),
                            "HKEYS" => Expect::Unordered(h.keys().map(|k| bulk(k)).collect()),
                            "HVALS" => Expect::Unordered(h.values().map(|k| bulk(k)).collect()),
                            // pairs are compared as pair-multiset by the comparator (see c01)
                            _ => Expect::Unordered(
                                h.iter()
                                    .map(|(f, v)| RespValue::Array(Some(vec![bulk(f), bulk(v)])))
                                    .collect(),
                            ),
                        },
                        _ => unreachable!(),
                    },
                }
            }
            "HINCRBY" => {
                arity!(n == 4);
                let by = int_arg!(&a[3]);
                match self.typed(&a[1], "hash") {
                    Lookup::Wrong => return err(WRONGTYPE),
                    Lookup::Missing => {
                        self.keys.insert(
                            a[1].clone(),
                            Entry {
                                val: MVal::Hash(BTreeMap::new()),
                                deadline: None,
                            },
                        );
                    }
                    Lookup::Found(_) => {}
                }
                let mut created_empty = false;
                let r = if let Some(Entry { val: MVal::Hash(h), .. }) = self.keys.get_mut(&a[1]) {
                    let cur = match h.get(&a[2]) {
                        None => Some(0),
                        Some(v) => string2ll(v),
                    };
                    match cur {
                        None => {
                            created_empty = h.is_empty();
                            err("ERR")
                        }
                        Some(c) => match c.checked_add(by) {
                            None => {
                                created_empty = h.is_empty();
                                err("ERR")
                            }
                            Some(v) => {
                                h.insert(a[2].clone(), v.to_string().into_bytes());
                                int(v)
                            }
                        },
                    }
                } else {
                    unreachable!()
                };
                if created_empty {
                    self.keys.remove(&a[1]);
                }
                r
            }
            // ------------------------------------------------------------------ sorted sets
            "ZADD" => {
                arity!(n >= 4);
                let (mut nx, mut xx, mut gt, mut lt, mut ch) = (false, false, false, false, false);
                let mut i = 2;
                while i < n {
                    match up(&a[i]).as_str() {
                        "NX" => nx = true,
                        "XX" => xx = true,
                        "GT" => gt = true,
                        "LT" => lt = true,
                        "CH" => ch = true,
                        "INCR" => return Expect::Unsupported,
                        _ => break,
                    }
                    i += 1;
                }
                let rest = &a[i..];
                if rest.is_empty() || rest.len() % 2 != 0 {
                    return err("ERR");
                }
                if nx && xx {
                    return err("ERR");
                }
                if (gt && nx) || (lt && nx) || (gt && lt) {
                    return err("ERR");
                }
                let mut pairs = Vec::new();
                for p in rest.chunks(2) {
                    match string2d(&p[0]) {
                        Some(s) => pairs.push((s, p[1].clone())),
                        None => return err("ERR"),
                    }
                }
                match self.typed(&a[1], "zset") {
                    Lookup::Wrong => return err(WRONGTYPE),
                    Lookup::Missing => {
                        if xx {
                            return int(0);
                        }
                        self.keys.insert(
                            a[1].clone(),
                            Entry {
                                val: MVal::ZSet(vec![]),
                                deadline: None,
                            },
                        );
                    }
                    Lookup::Found(_) => {}
                }
                let (mut added, mut changed) = (0, 0);
                if let Some(Entry { val: MVal::ZSet(z), .. }) = self.keys.get_mut(&a[1]) {
                    for (s, m) in pairs {
                        let cur = z.iter().find(|(_, x)| *x == m).map(|(sc, _)| *sc);
                        match cur {
                            None => {
                                if !xx {
                                    Self::zinsert(z, s, &m);
                                    added += 1;
                                }
                            }
                            Some(c) => {
                                if nx {
                                    continue;
                                }
                                if gt && s <= c {
                                    continue;
                                }
                                if lt && s >= c {
                                    continue;
                                }
                                if s != c {
                                    Self::zinsert(z, s, &m);
                                    changed += 1;
                                }
                            }
                        }
                    }
                }
                self.drop_if_empty(&a[1]);
                int(if ch { added + changed } else { added })
            }
            "ZREM" => {
                arity!(n >= 3);
                let c = match self.typed(&a[1], "zset") {
                    Lookup::Wrong => return err(WRONGTYPE),
                    Lookup::Missing => return int(0),
                    Lookup::Found(e) => {
                        if let MVal::ZSet(z) = &mut e.val {
                            let mut c = 0;
                            for m in &a[2..] {
                                let before = z.len();
                                z.retain(|(_, x)| x != m);
                                if z.len() < before {
                                    c += 1;
                                }
                            }
                            c
                        } else {
                            unreachable!()
                        }
                    }
                };
                self.drop_if_empty(&a[1]);
                int(c)
            }
            "ZRANGE" | "ZREVRANGE" => {
                arity!(n == 4 || n == 5);
                let s = int_arg!(&a[2]);
                let e_ = int_arg!(&a[3]);
                let ws = if n == 5 {
                    if up(&a[4]) == "WITHSCORES" {
                        true
                    } else {
                        return err("ERR");
                    }
                } else {
                    false
                };
                match self.typed(&a[1], "zset") {
                    Lookup::Wrong => err(WRONGTYPE),
                    Lookup::Missing => arr(vec![]),
                    Lookup::Found(e) => match &e.val {
                        MVal::ZSet(z) => {
                            let mut v: Vec<(f64, Bytes)> = z.clone();
                            if name == "ZREVRANGE" {
                                v.reverse();
                            }
                            match norm_range(s, e_, v.len()) {
                                None => arr(vec![]),
                                Some((x, y)) => Expect::ZArray(
                                    v[x..=y].iter().map(|(sc, m)| (m.clone(), if ws { Some(*sc) } else { None })).collect(),
                                ),
                            }
                        }
                        _ => unreachable!(),
                    },
                }
            }
            "ZSCORE" | "ZRANK" => {
                arity!(n == 3);
                match self.typed(&a[1], "zset") {
                    Lookup::Wrong => err(WRONGTYPE),
                    Lookup::Missing => Expect::Exact(nil()),
                    Lookup::Found(e) => match &e.val {
                        MVal::ZSet(z) => match z.iter().position(|(_, m)| *m == a[2]) {
                            None => Expect::Exact(nil()),
                            Some(p) => {
                                if name == "ZRANK" {
                                    int(p as i64)
                                } else {
                                    Expect::Float(z[p].0)
                                }
                            }
                        },
                        _ => unreachable!(),
                    },
                }
            }
            "ZCARD" => {
                arity!(n == 2);
                match self.typed(&a[1], "zset") {
                    Lookup::Wrong => err(WRONGTYPE),
                    Lookup::Missing => int(0),
                    Lookup::Found(e) => match &e.val {
                        MVal::ZSet(z) => int(z.len() as i64),
                        _ => unreachable!(),
                    },
                }
            }
            "ZCOUNT" | "ZRANGEBYSCORE" => {
                arity!(n >= 4);
                let (min, minx) = match parse_bound(&a[2]) {
                    Some(b) => b,
                    None => return err("ERR"),
                };
                let (max, maxx) = match parse_bound(&a[3]) {
                    Some(b) => b,
                    None => return err("ERR"),
                };
                let mut ws = false;
                let mut limit: Option<(i64, i64)> = None;
                if name == "ZCOUNT" {
                    arity!(n == 4);
                } else {
                    let mut i = 4;
                    while i < n {
                        match up(&a[i]).as_str() {
                            "WITHSCORES" => ws = true,
                            "LIMIT" if i + 2 < n => {
                                let o = int_arg!(&a[i + 1]);
                                let c = int_arg!(&a[i + 2]);
                                limit = Some((o, c));
                                i += 2;
                            }
                            _ => return err("ERR"),
                        }
                        i += 1;
                    }
                }
                match self.typed(&a[1], "zset") {
                    Lookup::Wrong => err(WRONGTYPE),
                    Lookup::Missing => {
                        if name == "ZCOUNT" {
                            int(0)
                        } else {
                            arr(vec![])
                        }
                    }
                    Lookup::Found(e) => match &e.val {
                        MVal::ZSet(z) => {
                            let sel: Vec<&(f64, Bytes)> = z
                                .iter()
                                .filter(|(s, _)| {
                                    (if minx { *s > min } else { *s >= min }) && (if maxx { *s < max } else { *s <= max })
                                })
                                .collect();
                            if name == "ZCOUNT" {
                                return int(sel.len() as i64);
                            }
                            let sel: Vec<&(f64, Bytes)> = match limit {
                                None => sel,
                                Some((o, c)) => {
                                    if o < 0 {
                                        vec![]
                                    } else {
                                        let it = sel.into_iter().skip(o as usize);
                                        if c < 0 {
                                            it.collect()
                                        } else {
                                            it.take(c as usize).collect()
                                        }
                                    }
                                }
                            };
                            if sel.is_empty() {
                                return arr(vec![]);
                            }
                            Expect::ZArray(sel.iter().map(|(s, m)| (m.clone(), if ws { Some(*s) } else { None })).collect())
                        }
                        _ => unreachable!(),
                    },
                }
            }
            _ => Expect::Unsupported,
        }
    }
}

/// Redis LRANGE/ZRANGE index normalisation; None = empty range.
pub fn norm_range(start: i64, end: i64, len: usize) -> Option<(usize, usize)> {
    let l = len as i128;
    let (mut s, mut e) = (start as i128, end as i128);
    if s < 0 {
        s += l;
    }
    if e < 0 {
        e += l;
    }
    if s < 0 {
        s = 0;
    }
    if s > e || s >= l {
        return None;
    }
    if e >= l {
        e = l - 1;
    }
    Some((s as usize, e as usize))
}

/// Redis LD_STR_HUMAN formatting ("%.17Lf" with trailing zeros removed) for benign values.
pub fn fmt_human(v: f64) -> String {
    let s = format!("{:.17}", v);
    if s.contains('.') {
        let t = s.trim_end_matches('0').trim_end_matches('.');
        t.to_string()
    } else {
        s
    }
}

/// Compare an implementation reply with the model's expectation. None = agree.
pub fn mismatch(exp: &Expect, got: &RespValue) -> Option<String> {
    use crate::resp::show;
    match exp {
        Expect::Unsupported => None,
        Expect::Exact(v) => {
            if v == got {
                None
            } else {
                Some(format!("expected {} got {}", show(v), show(got)))
            }
        }
        Expect::ErrCode(c) => match got {
            RespValue::Error(m) => {
                let code = m.split(' ').next().unwrap_or("");
                // parse-level rejections surface as plain ERR in a server
                // Which of two simultaneous faults (bad argument vs wrong-type key) is reported first
                // is not insisted on: ERR expected, WRONGTYPE given is accepted (both reject without effect;
                // the keyspace comparison that follows still applies).
                if code == c || (c == "ERR" && !matches!(code, "NOPERM" | "EXECABORT" | "NOSCRIPT" | "BUSY")) {
                    None
                } else {
                    Some(format!("expected error {c} got {}", show(got)))
                }
            }
            _ => Some(format!("expected error {c} got {}", show(got))),
        },
        Expect::Unordered(items) => match got {
            RespValue::Array(Some(g)) => {
                // HGETALL: the model gives [field,value] pairs; flatten got accordingly
                let pairs = items.iter().all(|i| matches!(i, RespValue::Array(_))) && !items.is_empty();
                let mut gv: Vec<String> = if pairs {
                    if g.len() % 2 != 0 {
                        return Some(format!("odd-length pair reply {}", show(got)));
                    }
                    g.chunks(2).map(|c| format!("[{},{}]", show(&c[0]), show(&c[1]))).collect()
                } else {
                    g.iter().map(show).collect()
                };
                let mut ev: Vec<String> = items.iter().map(show).collect();
                gv.sort();
                ev.sort();
                if gv == ev {
                    None
                } else {
                    Some(format!("expected (any order) [{}] got {}", ev.join(","), show(got)))
                }
            }
            _ => Some(format!("expected array got {}", show(got))),
        },
        Expect::Float(f) => match got {
            RespValue::BulkString(Some(b)) => match string2d(b) {
                Some(v) if v == *f => None,
                _ => Some(format!("expected float {} got {}", fmt_score(*f), show(got))),
            },
            _ => Some(format!("expected float {} got {}", fmt_score(*f), show(got))),
        },
        Expect::ZArray(items) => match got {
            RespValue::Array(Some(g)) => {
                let with_scores = items.iter().any(|(_, s)| s.is_some());
                let want_len = if with_scores { items.len() * 2 } else { items.len() };
                if g.len() != want_len {
                    return Some(format!("expected {} elements got {}", want_len, show(got)));
                }
                for (i, (m, s)) in items.iter().enumerate() {
                    let gm = if with_scores { &g[2 * i] } else { &g[i] };
                    if *gm != bulk(m) {
                        return Some(format!("element {i}: expected member {} got {}", esc(m), show(gm)));
                    }
                    if let Some(sc) = s {
                        match &g[2 * i + 1] {
                            RespValue::BulkString(Some(b)) if string2d(b) == Some(*sc) => {}
                            other => return Some(format!("element {i}: expected score {} got {}", fmt_score(*sc), show(other))),
                        }
                    }
                }
                None
            }
            _ => Some(format!("expected array got {}", show(got))),
        },
        Expect::Validated(r) => r.clone().err(),
    }
}

/// Kind of an expectation, for violation signatures.
pub fn expect_kind(e: &Expect) -> String {
    match e {
        Expect::Exact(v) => crate::resp::kind(v),
        Expect::ErrCode(c) => format!("-{c}"),
        Expect::Unordered(v) => format!("array{}", if v.is_empty() { "0" } else { "N" }),
        Expect::Float(_) => "float".into(),
        Expect::ZArray(_) => "arrayN".into(),
        Expect::Validated(_) => "choice".into(),
        Expect::Unsupported => "unsupported".into(),
    }
}
