//! Small helpers around the repo's RESP value and command types.
use redis_sim::redis::{Command, RespValue};

pub type Argv = Vec<Vec<u8>>;

pub fn argv(parts: &[&str]) -> Argv {
    parts.iter().map(|s| s.as_bytes().to_vec()).collect()
}

pub fn argv_b(parts: &[&[u8]]) -> Argv {
    parts.iter().map(|s| s.to_vec()).collect()
}

/// Split a command line on spaces ("SET k v"). `\x..` escapes allowed in tokens; `""` = empty.
pub fn line(s: &str) -> Argv {
    s.split(' ').filter(|t| !t.is_empty()).map(unescape).collect()
}

pub fn unescape(t: &str) -> Vec<u8> {
    if t == "\"\"" {
        return Vec::new();
    }
    let b = t.as_bytes();
    let mut out = Vec::new();
    let mut i = 0;
    while i < b.len() {
        if b[i] == b'\\' && i + 3 < b.len() && b[i + 1] == b'x' {
            if let Ok(v) = u8::from_str_radix(std::str::from_utf8(&b[i + 2..i + 4]).unwrap_or("zz"), 16) {
                out.push(v);
                i += 4;
                continue;
            }
        }
        out.push(b[i]);
        i += 1;
    }
    out
}

pub fn esc(b: &[u8]) -> String {
    if b.is_empty() {
        return "\"\"".to_string();
    }
    let mut s = String::new();
    for &c in b {
        if c.is_ascii_graphic() && c != b'\\' {
            s.push(c as char);
        } else {
            s.push_str(&format!("\\x{:02x}", c));
        }
    }
    s
}

pub fn show_argv(a: &Argv) -> String {
    a.iter().map(|t| esc(t)).collect::<Vec<_>>().join(" ")
}

pub fn frame(a: &Argv) -> RespValue {
    RespValue::Array(Some(
        a.iter().map(|t| RespValue::BulkString(Some(t.clone()))).collect(),
    ))
}

/// Wire encoding of a command (array of bulk strings).
pub fn wire(a: &Argv) -> Vec<u8> {
    let mut out = format!("*{}\r\n", a.len()).into_bytes();
    for t in a {
        out.extend_from_slice(format!("${}\r\n", t.len()).as_bytes());
        out.extend_from_slice(t);
        out.extend_from_slice(b"\r\n");
    }
    out
}

/// Parse through `Command::from_resp`; a parser panic is reported as `Err("PANIC …")`.
pub fn parse(a: &Argv) -> Result<Command, String> {
    let f = frame(a);
    match std::panic::catch_unwind(|| Command::from_resp(&f)) {
        Ok(r) => r,
        Err(p) => Err(format!("PANIC {}", crate::panic_text(&p))),
    }
}

pub fn show(v: &RespValue) -> String {
    match v {
        RespValue::SimpleString(s) => format!("+{}", s),
        RespValue::Error(s) => format!("-{}", s),
        RespValue::Integer(i) => format!(":{}", i),
        RespValue::BulkString(None) => "$nil".to_string(),
        RespValue::BulkString(Some(b)) => format!("${}", esc(b)),
        RespValue::Array(None) => "*nil".to_string(),
        RespValue::Array(Some(items)) => {
            format!("[{}]", items.iter().map(show).collect::<Vec<_>>().join(","))
        }
    }
}

/// First word of an error reply (the error code clients dispatch on).
pub fn err_code(v: &RespValue) -> Option<String> {
    match v {
        RespValue::Error(s) => Some(s.split(' ').next().unwrap_or("").to_string()),
        _ => None,
    }
}

pub fn is_err(v: &RespValue) -> bool {
    matches!(v, RespValue::Error(_))
}

/// Shape of a reply for signatures: kind only, no payload.
pub fn kind(v: &RespValue) -> String {
    match v {
        RespValue::SimpleString(s) => format!("+{}", s),
        RespValue::Error(s) => format!("-{}", s.split(' ').next().unwrap_or("")),
        RespValue::Integer(_) => "int".to_string(),
        RespValue::BulkString(None) => "nil".to_string(),
        RespValue::BulkString(Some(_)) => "bulk".to_string(),
        RespValue::Array(None) => "nilarray".to_string(),
        RespValue::Array(Some(v)) => format!("array{}", if v.is_empty() { "0" } else { "N" }),
    }
}

pub fn bulk(b: &[u8]) -> RespValue {
    RespValue::BulkString(Some(b.to_vec()))
}

pub fn to_json(v: &RespValue) -> serde_json::Value {
    serde_json::Value::String(show(v))
}

pub fn argv_json(a: &Argv) -> serde_json::Value {
    serde_json::Value::String(show_argv(a))
}

pub fn argv_from_json(v: &serde_json::Value) -> Argv {
    line(v.as_str().unwrap_or(""))
}
