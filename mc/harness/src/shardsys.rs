//! A real `ShardedActorState` whose shard actors are owned by a POLEX scheduler.
//! Must be created and used inside `polex::with_runtime(|rt| rt.block_on(async { .. }))`.
use crate::polex::{Sched, ADVANCE};
use crate::resp::{self, Argv};
use redis_sim::io::TimeSource;
use redis_sim::production::{ShardConfig, ShardedActorState};
use redis_sim::redis::RespValue;
use std::cell::RefCell;
use std::future::Future;
use std::rc::Rc;
use std::sync::atomic::{AtomicU64, Ordering};
use std::sync::Arc;

/// Harness-owned clock.
#[derive(Clone, Debug)]
pub struct VerifTime(pub Arc<AtomicU64>);

impl VerifTime {
    pub fn new(ms: u64) -> Self {
        VerifTime(Arc::new(AtomicU64::new(ms)))
    }
    pub fn advance(&self, ms: u64) {
        self.0.fetch_add(ms, Ordering::SeqCst);
    }
    pub fn get(&self) -> u64 {
        self.0.load(Ordering::SeqCst)
    }
}

impl TimeSource for VerifTime {
    fn now_millis(&self) -> u64 {
        self.0.load(Ordering::SeqCst)
    }
}

pub struct Node<T: TimeSource> {
    pub state: ShardedActorState<T>,
    pub sched: Sched,
}

impl<T: TimeSource> Node<T> {
    /// Build the real state; the shard actor futures it "spawns" are adopted by the scheduler.
    pub fn new(num_shards: usize, time: T) -> Self {
        let state = ShardedActorState::with_config_and_time_source(ShardConfig::with_shards(num_shards), time);
        let mut sched = Sched::new();
        sched.adopt_captured();
        Node { state, sched }
    }

    pub fn from_state(state: ShardedActorState<T>) -> Self {
        let mut sched = Sched::new();
        sched.adopt_captured();
        Node { state, sched }
    }

    /// Run one client call to completion with canonical scheduling (sequential client: the
    /// schedule is not a dimension). Err = the call can never complete (lost reply / deadlock / panic).
    pub async fn call<R: 'static, Fut, F>(&mut self, f: F) -> Result<R, String>
    where
        F: FnOnce(ShardedActorState<T>) -> Fut,
        Fut: Future<Output = R> + 'static,
    {
        let slot: Rc<RefCell<Option<R>>> = Rc::new(RefCell::new(None));
        let slot2 = slot.clone();
        let fut = f(self.state.clone());
        let id = self.sched.add(
            "client",
            Box::pin(async move {
                let r = fut.await;
                *slot2.borrow_mut() = Some(r);
            }),
            false,
        );
        let mut steps = 0usize;
        while !self.sched.tasks[id].done {
            if let Some(p) = &self.sched.panicked {
                return Err(p.clone());
            }
            let en: Vec<usize> = self.sched.enabled().into_iter().filter(|i| *i != ADVANCE).collect();
            if en.is_empty() {
                return Err("no enabled task while the client call is unfinished (lost reply)".into());
            }
            self.sched.step(en[0]).await;
            steps += 1;
            if steps > 100_000 {
                return Err("step limit exceeded".into());
            }
        }
        if let Some(p) = &self.sched.panicked {
            return Err(p.clone());
        }
        let r = slot.borrow_mut().take();
        r.ok_or_else(|| "client finished without a result".to_string())
    }

    /// Generic path: parse with the production parser entry used by the simulation (from_resp) and execute.
    pub async fn exec(&mut self, a: &Argv) -> RespValue {
        let cmd = match resp::parse(a) {
            Ok(c) => c,
            Err(e) => return RespValue::Error(format!("ERR {e}").into()),
        };
        match self.call(move |st| async move { st.execute(&cmd).await }).await {
            Ok(r) => r,
            Err(e) => RespValue::Error(format!("HANG {e}").into()),
        }
    }
}

impl<T: TimeSource> Node<T> {
    /// Visible keyspace through the generic command path (KEYS * / TYPE / value / PTTL).
    pub async fn dump(&mut self) -> crate::dump::Keyspace {
        use crate::dump::*;
        use crate::resp::argv_b;
        let mut out = Keyspace::new();
        let keys = match bulk_items(&self.exec(&argv_b(&[b"KEYS", b"*"])).await) {
            Some(k) => k,
            None => return keys_failed(),
        };
        let mut keys = keys;
        keys.sort();
        for k in keys {
            let ty = type_name(self.exec(&argv_b(&[b"TYPE", &k])).await);
            let val = match value_cmd(&ty, &k) {
                Some(c) => render_value(&ty, &self.exec(&c).await),
                None => "?".to_string(),
            };
            let pttl = self.exec(&argv_b(&[b"PTTL", &k])).await;
            insert_key(&mut out, &k, ty, val, pttl);
        }
        out
    }
}
