//! The real `OptimizedConnectionHandler` on a scripted in-memory stream, with the shard actors
//! owned by a POLEX scheduler. Use inside `polex::with_runtime(|rt| rt.block_on(async { .. }))`.
use crate::polex::Sched;
use parking_lot::RwLock;
use redis_sim::observability::Metrics;
use redis_sim::production::{BufferPoolAsync, ConnectionConfig, OptimizedConnectionHandler, ShardedActorState};
use redis_sim::redis::{RespParser, RespValue};
use redis_sim::security::AclManager;
use std::cell::RefCell;
use std::collections::VecDeque;
use std::io;
use std::pin::Pin;
use std::rc::Rc;
use std::sync::Arc;
use std::task::{Context, Poll, Waker};
use tokio::io::{AsyncRead, AsyncWrite, ReadBuf};

#[derive(Default)]
struct StreamState {
    chunks: VecDeque<Vec<u8>>,
    written: Vec<u8>,
    writes: usize,
    eof: bool,
    reader: Option<Waker>,
    reads: usize,
    /// the socket accepts at most this many bytes per write call (0 = everything): short writes
    write_cap: usize,
}

/// A caller-scripted duplex stream: every `poll_read` hands out (at most) the next chunk.
#[derive(Clone, Default)]
pub struct ScriptStream(Rc<RefCell<StreamState>>);

impl ScriptStream {
    pub fn new() -> Self {
        Self::default()
    }
    pub fn push(&self, bytes: &[u8]) {
        let mut s = self.0.borrow_mut();
        if !bytes.is_empty() {
            s.chunks.push_back(bytes.to_vec());
        }
        if let Some(w) = s.reader.take() {
            w.wake();
        }
    }
    pub fn close(&self) {
        let mut s = self.0.borrow_mut();
        s.eof = true;
        if let Some(w) = s.reader.take() {
            w.wake();
        }
    }
    /// From now on every write call is accepted only up to `cap` bytes (a short write; 0 = no limit).
    pub fn set_write_cap(&self, cap: usize) {
        self.0.borrow_mut().write_cap = cap;
    }
    pub fn take_written(&self) -> Vec<u8> {
        std::mem::take(&mut self.0.borrow_mut().written)
    }
    pub fn written_len(&self) -> usize {
        self.0.borrow().written.len()
    }
    pub fn unread_chunks(&self) -> usize {
        self.0.borrow().chunks.len()
    }
    pub fn reads(&self) -> usize {
        self.0.borrow().reads
    }
}

impl AsyncRead for ScriptStream {
    fn poll_read(self: Pin<&mut Self>, cx: &mut Context<'_>, buf: &mut ReadBuf<'_>) -> Poll<io::Result<()>> {
        let mut s = self.0.borrow_mut();
        if let Some(mut c) = s.chunks.pop_front() {
            let n = c.len().min(buf.remaining());
            buf.put_slice(&c[..n]);
            if n < c.len() {
                let rest = c.split_off(n);
                s.chunks.push_front(rest);
            }
            s.reads += 1;
            return Poll::Ready(Ok(()));
        }
        if s.eof {
            return Poll::Ready(Ok(())); // 0 bytes = EOF
        }
        s.reader = Some(cx.waker().clone());
        Poll::Pending
    }
}

impl AsyncWrite for ScriptStream {
    fn poll_write(self: Pin<&mut Self>, _cx: &mut Context<'_>, data: &[u8]) -> Poll<io::Result<usize>> {
        let mut s = self.0.borrow_mut();
        let n = if s.write_cap > 0 { data.len().min(s.write_cap) } else { data.len() };
        s.written.extend_from_slice(&data[..n]);
        s.writes += 1;
        Poll::Ready(Ok(n))
    }
    fn poll_flush(self: Pin<&mut Self>, _cx: &mut Context<'_>) -> Poll<io::Result<()>> {
        Poll::Ready(Ok(()))
    }
    fn poll_shutdown(self: Pin<&mut Self>, _cx: &mut Context<'_>) -> Poll<io::Result<()>> {
        Poll::Ready(Ok(()))
    }
}

pub struct ConnWorld {
    pub state: ShardedActorState,
    pub sched: Sched,
    pool: Arc<BufferPoolAsync>,
    acl: Arc<RwLock<AclManager>>,
}

impl ConnWorld {
    pub fn new(shards: usize) -> Self {
        Self::with_pool(shards, 4)
    }

    /// `pool_buffers` = number of buffers in the pool all connections of this world share
    pub fn with_pool(shards: usize, pool_buffers: usize) -> Self {
        let state = ShardedActorState::with_shards(shards);
        let mut sched = Sched::new();
        sched.adopt_captured();
        ConnWorld {
            state,
            sched,
            pool: Arc::new(BufferPoolAsync::new(pool_buffers, 8192)),
            acl: Arc::new(RwLock::new(AclManager::new())),
        }
    }

    /// Open a connection: the real handler's `run()` future becomes a (non-daemon) task.
    pub fn connect(&mut self, name: &str, cfg: ConnectionConfig) -> (ScriptStream, usize) {
        let stream = ScriptStream::new();
        let handler = OptimizedConnectionHandler::new(
            stream.clone(),
            self.state.clone(),
            format!("verif-{name}"),
            self.pool.clone(),
            Arc::new(Metrics::default()),
            cfg,
            self.acl.clone(),
            None,
        );
        let id = self.sched.add(name, Box::pin(handler.run()), false);
        (stream, id)
    }

    /// Poll everything enabled (canonical order) until nothing is enabled.
    pub async fn settle(&mut self) -> Result<(), String> {
        self.sched.quiesce(200_000).await
    }

    pub fn finished(&self, id: usize) -> bool {
        self.sched.tasks[id].done
    }
}

/// Decode a byte stream into replies; returns (replies, undecodable remainder).
pub fn decode_replies(mut bytes: &[u8]) -> (Vec<RespValue>, Vec<u8>) {
    let mut out = Vec::new();
    while !bytes.is_empty() {
        match std::panic::catch_unwind(|| RespParser::parse(bytes)) {
            Ok(Ok((v, n))) if n > 0 && n <= bytes.len() => {
                out.push(v);
                bytes = &bytes[n..];
            }
            _ => return (out, bytes.to_vec()),
        }
    }
    (out, Vec::new())
}
