use std::path::PathBuf;

#[derive(Clone, Copy, Debug, PartialEq, Eq)]
pub enum Tier {
    Quick,
    Thorough,
}

impl Tier {
    pub fn name(&self) -> &'static str {
        match self {
            Tier::Quick => "quick",
            Tier::Thorough => "thorough",
        }
    }
    pub fn pick<T>(&self, quick: T, thorough: T) -> T {
        match self {
            Tier::Quick => quick,
            Tier::Thorough => thorough,
        }
    }
}

#[derive(Clone, Debug)]
pub struct Args {
    pub tier: Tier,
    pub seed: u64,
    pub replay: Option<PathBuf>,
    /// free-form extra flags (check specific), e.g. `--only zset`
    pub extra: Vec<String>,
}

impl Args {
    pub fn flag(&self, name: &str) -> Option<&str> {
        let mut it = self.extra.iter();
        while let Some(a) = it.next() {
            if a == name {
                return it.next().map(|s| s.as_str());
            }
        }
        None
    }
    pub fn has(&self, name: &str) -> bool {
        self.extra.iter().any(|a| a == name)
    }
}

pub fn parse_args() -> Args {
    let mut tier = match std::env::var("VERIF_TIER").ok().as_deref() {
        Some("thorough") => Tier::Thorough,
        _ => Tier::Quick,
    };
    let seed = std::env::var("VERIF_SEED")
        .ok()
        .and_then(|s| s.parse::<u64>().ok())
        .unwrap_or(0);
    let mut replay = None;
    let mut extra = Vec::new();
    let mut it = std::env::args().skip(1);
    while let Some(a) = it.next() {
        match a.as_str() {
            "--tier" => {
                let v = it.next().unwrap_or_default();
                tier = match v.as_str() {
                    "quick" => Tier::Quick,
                    "thorough" => Tier::Thorough,
                    other => {
                        eprintln!("unknown tier {other}");
                        std::process::exit(2);
                    }
                };
            }
            "--replay" => {
                replay = it.next().map(PathBuf::from);
                if replay.is_none() {
                    eprintln!("--replay needs a path");
                    std::process::exit(2);
                }
            }
            _ => extra.push(a),
        }
    }
    Args {
        tier,
        seed,
        replay,
        extra,
    }
}
