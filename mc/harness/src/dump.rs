//! Visible-keyspace dump through the command interface (what a client can observe):
//! key -> (type, canonical full value, PTTL).
use crate::resp::{argv_b, esc, show, Argv};
use redis_sim::redis::RespValue;
use std::collections::BTreeMap;

#[derive(Clone, Debug, PartialEq, Eq, PartialOrd, Ord, Hash)]
pub struct KeyDump {
    pub ty: String,
    pub val: String,
    pub pttl: i64,
}

pub type Keyspace = BTreeMap<Vec<u8>, KeyDump>;

pub fn bulk_items(v: &RespValue) -> Option<Vec<Vec<u8>>> {
    match v {
        RespValue::Array(Some(items)) => {
            let mut out = Vec::new();
            for i in items {
                match i {
                    RespValue::BulkString(Some(b)) => out.push(b.clone()),
                    other => out.push(show(other).into_bytes()),
                }
            }
            Some(out)
        }
        _ => None,
    }
}

/// The command that reads the full value of a key of type `ty`.
pub fn value_cmd(ty: &str, k: &[u8]) -> Option<Argv> {
    Some(match ty {
        "string" => argv_b(&[b"GET", k]),
        "list" => argv_b(&[b"LRANGE", k, b"0", b"-1"]),
        "set" => argv_b(&[b"SMEMBERS", k]),
        "hash" => argv_b(&[b"HGETALL", k]),
        "zset" => argv_b(&[b"ZRANGE", k, b"0", b"-1", b"WITHSCORES"]),
        _ => return None,
    })
}

/// Canonical rendering of the reply of `value_cmd`.
pub fn render_value(ty: &str, r: &RespValue) -> String {
    match ty {
        "string" | "list" => show(r),
        "set" => {
            let mut m = bulk_items(r).unwrap_or_default();
            m.sort();
            format!("{{{}}}", m.iter().map(|x| esc(x)).collect::<Vec<_>>().join(","))
        }
        "hash" => {
            let flat = bulk_items(r).unwrap_or_default();
            let mut pairs: Vec<(Vec<u8>, Vec<u8>)> = flat
                .chunks(2)
                .map(|c| (c[0].clone(), c.get(1).cloned().unwrap_or_default()))
                .collect();
            pairs.sort();
            format!(
                "{{{}}}",
                pairs.iter().map(|(f, v)| format!("{}={}", esc(f), esc(v))).collect::<Vec<_>>().join(",")
            )
        }
        "zset" => match bulk_items(r) {
            // canonical: member@score with the score re-rendered from its parsed value
            Some(flat) if flat.len() % 2 == 0 => format!(
                "[{}]",
                flat.chunks(2)
                    .map(|c| {
                        let sc = match crate::model::string2d(&c[1]) {
                            Some(f) => crate::model::fmt_score(f),
                            None => format!("?{}", esc(&c[1])),
                        };
                        format!("{}@{}", esc(&c[0]), sc)
                    })
                    .collect::<Vec<_>>()
                    .join(",")
            ),
            _ => show(r),
        },
        _ => "?".to_string(),
    }
}

pub fn keys_failed() -> Keyspace {
    let mut out = Keyspace::new();
    out.insert(
        b"<KEYS failed>".to_vec(),
        KeyDump {
            ty: "?".into(),
            val: "?".into(),
            pttl: 0,
        },
    );
    out
}

pub fn type_name(r: RespValue) -> String {
    match r {
        RespValue::SimpleString(s) => s.to_string(),
        other => show(&other),
    }
}

pub fn insert_key(out: &mut Keyspace, k: &[u8], ty: String, val: String, pttl_reply: RespValue) {
    let pttl = match pttl_reply {
        RespValue::Integer(i) => i,
        _ => i64::MIN,
    };
    // duplicate keys in KEYS output (a key with two homes) are made visible
    let mut name = k.to_vec();
    while out.contains_key(&name) {
        name.extend_from_slice(b"<dup>");
    }
    out.insert(name, KeyDump { ty, val, pttl });
}

/// Dump the visible keyspace using only commands. `exec` runs one command on the system.
pub fn dump_via<F: FnMut(&Argv) -> RespValue>(mut exec: F) -> Keyspace {
    let mut out = Keyspace::new();
    let keys = match bulk_items(&exec(&argv_b(&[b"KEYS", b"*"]))) {
        Some(k) => k,
        None => return keys_failed(),
    };
    for k in keys {
        let ty = type_name(exec(&argv_b(&[b"TYPE", &k])));
        let val = match value_cmd(&ty, &k) {
            Some(c) => render_value(&ty, &exec(&c)),
            None => "?".to_string(),
        };
        let pttl = exec(&argv_b(&[b"PTTL", &k]));
        insert_key(&mut out, &k, ty, val, pttl);
    }
    out
}

pub fn show_keyspace(ks: &Keyspace) -> String {
    let mut s = String::new();
    for (k, d) in ks {
        if !s.is_empty() {
            s.push_str("; ");
        }
        s.push_str(&format!("{}:{}={} ttl={}", esc(k), d.ty, d.val, d.pttl));
    }
    if s.is_empty() {
        s.push_str("<empty>");
    }
    s
}

/// First difference between two keyspaces, as (kind, description); kind in
/// {missing, extra, type, value, ttl}.
pub fn diff(expected: &Keyspace, got: &Keyspace) -> Option<(String, String)> {
    for (k, e) in expected {
        match got.get(k) {
            None => return Some(("missing".into(), format!("key {} missing (expected {}={})", esc(k), e.ty, e.val))),
            Some(g) => {
                if g.ty != e.ty {
                    return Some(("type".into(), format!("key {} type {} expected {}", esc(k), g.ty, e.ty)));
                }
                if g.val != e.val {
                    return Some(("value".into(), format!("key {} value {} expected {}", esc(k), g.val, e.val)));
                }
                if g.pttl != e.pttl {
                    return Some(("ttl".into(), format!("key {} pttl {} expected {}", esc(k), g.pttl, e.pttl)));
                }
            }
        }
    }
    for (k, g) in got {
        if !expected.contains_key(k) {
            return Some(("extra".into(), format!("key {} present ({}={}) but should not exist", esc(k), g.ty, g.val)));
        }
    }
    None
}
