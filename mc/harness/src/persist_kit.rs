//! Helpers shared by the persistence checks (C08, C11, C13): update construction, the observable
//! projection of a replicated value, folds, and store layouts built with the real writers.
use crate::stores::VObjStore;
use redis_sim::redis::SDS;
use redis_sim::replication::lattice::{LamportClock, ReplicaId};
use redis_sim::replication::state::{CrdtValue, ReplicatedValue, ReplicationDelta};
use redis_sim::streaming::{
    CheckpointInfo, CheckpointWriter, Compression, Manifest, ManifestManager, RecoveryManager, SegmentInfo, SegmentWriter,
};
use std::collections::{BTreeMap, HashMap};

pub const PREFIX: &str = "p";

pub fn block_on<F: std::future::Future>(f: F) -> F::Output {
    futures::executor::block_on(f)
}

#[derive(Clone, Copy, Debug, PartialEq, Eq, PartialOrd, Ord, Hash)]
pub enum Kind {
    SetA,
    SetB,
    Tomb,
    HashF,
    HashG,
    /// HDEL f: the hash with field f tombstoned at the update's stamp
    HashDelF,
}

impl Kind {
    pub fn name(&self) -> &'static str {
        match self {
            Kind::SetA => "set-a",
            Kind::SetB => "set-b",
            Kind::Tomb => "del",
            Kind::HashF => "hset-f",
            Kind::HashG => "hset-g",
            Kind::HashDelF => "hdel-f",
        }
    }
    pub const ALL: [Kind; 6] = [Kind::SetA, Kind::SetB, Kind::Tomb, Kind::HashF, Kind::HashG, Kind::HashDelF];
}

/// An update as the command glue would produce it: (key, kind, stamp = (time, replica)).
#[derive(Clone, Copy, Debug, PartialEq, Eq, PartialOrd, Ord, Hash)]
pub struct Upd {
    pub key: u8,
    pub kind: Kind,
    pub time: u64,
    pub replica: u64,
}

impl Upd {
    pub fn key_name(&self) -> String {
        format!("k{}", self.key)
    }
    pub fn show(&self) -> String {
        format!("{}:{}@{}.r{}", self.key_name(), self.kind.name(), self.time, self.replica)
    }
    pub fn delta(&self) -> ReplicationDelta {
        let r = ReplicaId::new(self.replica);
        // operations tick the clock first, so start one below the wanted stamp
        let mut clock = LamportClock { time: self.time.saturating_sub(1), replica_id: r };
        let stamp = LamportClock { time: self.time, replica_id: r };
        let v = match self.kind {
            Kind::SetA => ReplicatedValue::with_value(SDS::from_str("a"), stamp),
            Kind::SetB => ReplicatedValue::with_value(SDS::from_str("b"), stamp),
            Kind::Tomb => {
                let mut v = ReplicatedValue::new(r);
                v.delete(&mut clock);
                v
            }
            Kind::HashF => {
                let mut v = ReplicatedValue::new(r);
                v.hash_set("f".to_string(), SDS::from_str("x"), &mut clock);
                v
            }
            Kind::HashG => {
                let mut v = ReplicatedValue::new(r);
                v.hash_set("g".to_string(), SDS::from_str("y"), &mut clock);
                v
            }
            Kind::HashDelF => {
                // what HSET f .. ; HDEL f leaves behind: field f is a tombstone carrying the HDEL's stamp
                let mut v = ReplicatedValue::new(r);
                v.hash_set("f".to_string(), SDS::from_str("x"), &mut clock);
                if let Some(h) = v.get_hash_mut() {
                    if let Some(l) = h.get_mut("f") {
                        l.tombstone = true;
                        l.value = None;
                    }
                }
                v
            }
        };
        ReplicationDelta::new(self.key_name(), v, r)
    }
}

fn stamp(c: &LamportClock) -> String {
    format!("{}.r{}", c.time, c.replica_id.0)
}

/// What a client or a later merge can observe of a value: kind, liveness/content with the inner
/// stamps, expiry, and the outer logical time (the outer stamp's replica id is left to C07).
pub fn project(v: &ReplicatedValue) -> String {
    let body = match &v.crdt {
        CrdtValue::Lww(l) => {
            if l.tombstone {
                format!("lww:DEL@{}", stamp(&l.timestamp))
            } else {
                match &l.value {
                    Some(s) => format!("lww:{}@{}", String::from_utf8_lossy(s.as_bytes()), stamp(&l.timestamp)),
                    None => "lww:unset".to_string(),
                }
            }
        }
        CrdtValue::Hash(h) => {
            let mut fields: Vec<String> = h
                .iter()
                .map(|(f, l)| {
                    if l.tombstone {
                        format!("{f}=DEL@{}", stamp(&l.timestamp))
                    } else {
                        format!("{f}={}@{}", l.value.as_ref().map(|s| String::from_utf8_lossy(s.as_bytes()).to_string()).unwrap_or_default(), stamp(&l.timestamp))
                    }
                })
                .collect();
            fields.sort();
            format!("hash:{{{}}}", fields.join(","))
        }
        other => format!("{}:{:?}", other.type_name(), other),
    };
    format!("{body} exp={:?} t={}", v.expiry_ms, v.timestamp.time)
}

/// What a client reads: live string value, live hash fields, or nothing.
pub fn client_view(v: &ReplicatedValue) -> String {
    match &v.crdt {
        CrdtValue::Lww(l) => match l.get() {
            Some(s) => format!("string:{}", String::from_utf8_lossy(s.as_bytes())),
            None => "absent".into(),
        },
        CrdtValue::Hash(h) => {
            let mut f: Vec<String> = h.iter().filter_map(|(k, l)| l.get().map(|s| format!("{k}={}", String::from_utf8_lossy(s.as_bytes())))).collect();
            f.sort();
            if f.is_empty() {
                "absent".into()
            } else {
                format!("hash:{{{}}}", f.join(","))
            }
        }
        other => other.type_name().to_string(),
    }
}

pub type Fold = BTreeMap<String, ReplicatedValue>;

pub fn fold_into(state: &mut Fold, d: &ReplicationDelta) {
    match state.get(&d.key) {
        Some(e) => {
            let m = e.merge(&d.value);
            state.insert(d.key.clone(), m);
        }
        None => {
            state.insert(d.key.clone(), d.value.clone());
        }
    }
}

pub fn fold(deltas: &[ReplicationDelta]) -> Fold {
    let mut s = Fold::new();
    for d in deltas {
        fold_into(&mut s, d);
    }
    s
}

pub fn projection(f: &Fold) -> BTreeMap<String, String> {
    f.iter().map(|(k, v)| (k.clone(), project(v))).collect()
}

pub fn views(f: &Fold) -> BTreeMap<String, String> {
    f.iter().map(|(k, v)| (k.clone(), client_view(v))).filter(|(_, v)| v != "absent").collect()
}

fn permutations<T: Clone>(v: &[T]) -> Vec<Vec<T>> {
    if v.len() <= 1 {
        return vec![v.to_vec()];
    }
    let mut out = Vec::new();
    for i in 0..v.len() {
        let mut rest = v.to_vec();
        let x = rest.remove(i);
        for mut p in permutations(&rest) {
            p.insert(0, x.clone());
            out.push(p);
        }
    }
    out
}

/// A replica issues every (time, replica) stamp once: two different updates of one key carrying the
/// same stamp cannot both exist in any system history, so such sets are not generated.
pub fn jointly_producible(u: &[Upd]) -> bool {
    for (i, a) in u.iter().enumerate() {
        for b in &u[i + 1..] {
            if a.key == b.key && a.time == b.time && a.replica == b.replica {
                return false;
            }
        }
    }
    true
}

/// The merge of a set of updates is only usable as ground truth when it does not depend on the
/// order in which they are merged (otherwise the set belongs to C07). Returns the fold if so.
pub fn order_independent_fold(u: &[Upd]) -> Option<Fold> {
    let deltas: Vec<ReplicationDelta> = u.iter().map(|x| x.delta()).collect();
    let mut reference: Option<(BTreeMap<String, String>, Fold)> = None;
    for p in permutations(&deltas) {
        let f = fold(&p);
        let pr = projection(&f);
        match &reference {
            None => reference = Some((pr, f)),
            Some((r, _)) => {
                if *r != pr {
                    return None;
                }
            }
        }
    }
    reference.map(|(_, f)| f)
}

/// A persisted layout: optional checkpoint (covering segment ids <= its last_segment_id) and segments.
#[derive(Clone, Debug, Default)]
pub struct Layout {
    /// updates folded into the checkpoint (None = no checkpoint)
    pub checkpoint: Option<Vec<Upd>>,
    /// segments in id order, ids start after the checkpoint's covered id
    pub segments: Vec<Vec<Upd>>,
}

impl Layout {
    pub fn show(&self) -> String {
        let cp = match &self.checkpoint {
            None => "none".to_string(),
            Some(c) => format!("[{}]", c.iter().map(|u| u.show()).collect::<Vec<_>>().join(" ")),
        };
        format!(
            "checkpoint={} segments={}",
            cp,
            self.segments.iter().map(|s| format!("[{}]", s.iter().map(|u| u.show()).collect::<Vec<_>>().join(" "))).collect::<Vec<_>>().join(" ")
        )
    }
    pub fn all_updates(&self) -> Vec<Upd> {
        let mut v: Vec<Upd> = self.checkpoint.clone().unwrap_or_default();
        for s in &self.segments {
            v.extend(s.iter().cloned());
        }
        v
    }
}

pub fn segment_bytes(deltas: &[ReplicationDelta]) -> Vec<u8> {
    let mut w = SegmentWriter::new(Compression::None);
    for d in deltas {
        w.write_delta(d).expect("write_delta");
    }
    w.finish().expect("finish segment")
}

/// Build the layout in a fresh store with the real writers; returns the store.
pub fn build_store(layout: &Layout) -> VObjStore {
    build_store_prefix(layout, usize::MAX)
}

/// ... with only the first `first_segments` segments of the layout (the rest can be appended later).
pub fn build_store_prefix(layout: &Layout, first_segments: usize) -> VObjStore {
    let store = VObjStore::new();
    let mut manifest = Manifest::new(1);
    let mut next_id = 0u64;
    if let Some(cp) = &layout.checkpoint {
        // the checkpoint covers one (already removed) segment with id 0
        let state: HashMap<String, ReplicatedValue> = fold(&cp.iter().map(|u| u.delta()).collect::<Vec<_>>()).into_iter().collect();
        let key_count = state.len() as u64;
        let bytes = CheckpointWriter::new(Compression::None).write(state, 1_000, 0).expect("checkpoint write");
        let key = format!("{PREFIX}/checkpoints/chk-0.chk");
        block_on(redis_sim::streaming::ObjectStore::put(&store, &key, &bytes)).unwrap();
        manifest.checkpoint = Some(CheckpointInfo { key, timestamp_ms: 1_000, key_count, last_segment_id: 0 });
        next_id = 1;
        manifest.next_segment_id = 1;
    }
    for seg in layout.segments.iter().take(first_segments) {
        let deltas: Vec<ReplicationDelta> = seg.iter().map(|u| u.delta()).collect();
        let bytes = segment_bytes(&deltas);
        let key = format!("{PREFIX}/segments/segment-{:08}.seg", next_id);
        block_on(redis_sim::streaming::ObjectStore::put(&store, &key, &bytes)).unwrap();
        manifest.add_segment(SegmentInfo {
            id: next_id,
            key,
            record_count: deltas.len() as u32,
            size_bytes: bytes.len() as u64,
            min_timestamp: seg.iter().map(|u| u.time).min().unwrap_or(0),
            max_timestamp: seg.iter().map(|u| u.time).max().unwrap_or(0),
        });
        next_id += 1;
    }
    block_on(ManifestManager::new(store.clone(), PREFIX).save(&manifest)).expect("manifest save");
    store.clear_log();
    store.reset_call_counter();
    store
}

/// What a flush does to the store, with the real writers: one more segment object and its manifest entry
/// (id allocated from the manifest as it is now).
pub fn append_segment(store: &VObjStore, seg: &[Upd]) {
    let mm = ManifestManager::new(store.clone(), PREFIX);
    let mut manifest = block_on(mm.load()).expect("manifest load");
    let id = manifest.allocate_segment_id();
    let deltas: Vec<ReplicationDelta> = seg.iter().map(|u| u.delta()).collect();
    let bytes = segment_bytes(&deltas);
    let key = format!("{PREFIX}/segments/segment-{:08}.seg", id);
    block_on(redis_sim::streaming::ObjectStore::put(store, &key, &bytes)).unwrap();
    manifest.add_segment(SegmentInfo {
        id,
        key,
        record_count: deltas.len() as u32,
        size_bytes: bytes.len() as u64,
        min_timestamp: seg.iter().map(|u| u.time).min().unwrap_or(0),
        max_timestamp: seg.iter().map(|u| u.time).max().unwrap_or(0),
    });
    block_on(mm.save(&manifest)).expect("manifest save");
}

/// Recover with the real RecoveryManager and fold the result the way a node applies it
/// (checkpoint entries first, then the deltas in the order returned).
pub fn recover_fold(store: &VObjStore) -> Result<Fold, String> {
    let rm = RecoveryManager::new(VObjStore::from_image(&store.image_now()), PREFIX, 1);
    let r = std::panic::catch_unwind(std::panic::AssertUnwindSafe(|| block_on(rm.recover())))
        .map_err(|p| format!("recovery panicked: {}", crate::panic_text(&p)))?
        .map_err(|e| format!("recovery failed: {e}"))?;
    let mut f: Fold = r.checkpoint_state.map(|m| m.into_iter().collect()).unwrap_or_default();
    for d in &r.deltas {
        fold_into(&mut f, d);
    }
    Ok(f)
}

/// A WAL file rewritten in the previous on-disk format (version 1: entry checksum = crc32 of the payload only), which
/// the reader keeps accepting (WAL_MIN_VERSION = 1). Layout: 16-byte header (byte 4 = version), then entries
/// [len u32 LE][stamp u64 LE][crc u32 LE][payload].
pub fn wal_file_to_version_1(bytes: &[u8]) -> Vec<u8> {
    let mut b = bytes.to_vec();
    if b.len() < 16 {
        return b;
    }
    b[4] = 1;
    let mut off = 16usize;
    while off + 16 <= b.len() {
        let len = u32::from_le_bytes([b[off], b[off + 1], b[off + 2], b[off + 3]]) as usize;
        if off + 16 + len > b.len() {
            break;
        }
        let crc = crc32fast::hash(&b[off + 16..off + 16 + len]);
        b[off + 12..off + 16].copy_from_slice(&crc.to_le_bytes());
        off += 16 + len;
    }
    b
}
