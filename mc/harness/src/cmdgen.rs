//! Bounded-exhaustive generator of command instances from per-command templates.
//!
//! Template tokens (space separated):
//!   WORD          literal (two or more characters)
//!   K V I F X M P C T S B D L H   one value from the domain of that letter
//!   K+  KV+  M+  MV+  FM+ V+     the group repeated 1..=2 times;  K* V*  0..=2 times
//!   ?A|B:I|C      optional group: nothing, or exactly one alternative; an alternative is a
//!                 ':'-separated sequence of literals / domain letters
//! The instance set of a template is the full Cartesian product — nothing is sampled.
use crate::resp::Argv;

#[derive(Clone, Copy, PartialEq, Eq, Debug)]
pub enum Profile {
    /// small domains: enough to reach every branch of the executors (C17, C01 cross checks)
    Small,
    /// rich domains incl. malformed numbers, empty/binary tokens (parser differential, C16)
    Rich,
    /// one or two well-formed values per letter: every command shape and option, no malformed arguments
    /// (sharding differential C03: routing depends on the command and its keys, not on the values)
    Routing,
}

pub fn domain(letter: char, p: Profile) -> Vec<Vec<u8>> {
    let s = |v: &[&str]| v.iter().map(|x| x.as_bytes().to_vec()).collect::<Vec<_>>();
    let rich = p == Profile::Rich;
    if p == Profile::Routing {
        return match letter {
            'K' => s(&["k1", "k2"]),
            'V' | 'M' => s(&["a"]),
            'I' => s(&["100000"]),
            'F' | 'B' => s(&["1"]),
            'X' => s(&["0", "-1"]),
            'P' => s(&["*"]),
            'C' => s(&["0", "2"]),
            'T' => s(&["100000"]),
            'S' => s(&["-inf", "+inf"]),
            'D' => s(&["LEFT", "RIGHT"]),
            'L' => s(&["return 1", "return redis.call('SET',KEYS[1],ARGV[1])", "return redis.call('GET',KEYS[1])"]),
            'H' => s(&["0000000000000000000000000000000000000000", "e0e1f9fabfc9d4800c877a703b823ac0578ff8db"]),
            _ => panic!("unknown domain letter {letter}"),
        };
    }
    let mut d = match letter {
        'K' => s(&["k1", "k2"]),
        'V' => s(&["a", "10", ""]),
        'I' => s(&["0", "1", "-1", "9223372036854775807", "-9223372036854775808", "x"]),
        // 1.7e308: finite, and twice it is not
        'F' => s(&["1", "-1.5", "inf", "nan", "x", "1.7e308"]),
        'X' => s(&["0", "1", "-1", "-100", "100"]),
        // members / fields: two ordinary ones and one that is not valid UTF-8
        'M' => vec![b"a".to_vec(), b"b".to_vec(), b"\xff\xfe".to_vec()],
        'P' => s(&["*", "k?", "["]),
        'C' => s(&["0", "1", "2", "-1", "x"]),
        'T' => s(&["0", "1", "100000", "-1", "x"]),
        'S' => s(&["0", "(1", "-inf", "+inf", "x"]),
        'B' => s(&["0", "1", "2"]),
        'D' => s(&["LEFT", "RIGHT", "left", "UP"]),
        'L' => s(&[
            "return 1",
            "return redis.call('SET',KEYS[1],ARGV[1])",
            "return redis.call('GET',KEYS[1])",
            "return redis.call('INCR',KEYS[1])",
            "return redis.call('LPUSH',KEYS[1],ARGV[1])",
            "return redis.pcall('HSET',KEYS[1],'f',ARGV[1])",
            "retur",
        ]),
        'H' => s(&[
            "0000000000000000000000000000000000000000",
            "e0e1f9fabfc9d4800c877a703b823ac0578ff8db", // sha1("return 1")
            "zz",
        ]),
        _ => panic!("unknown domain letter {letter}"),
    };
    if rich {
        let extra: Vec<Vec<u8>> = match letter {
            'K' => vec![b"".to_vec(), b"\xffk".to_vec()],
            'V' => vec![
                b"\xff\x00".to_vec(),
                b"9223372036854775807".to_vec(),
                b"abcdefghijklmnopqrstuvwx".to_vec(),
            ],
            'I' => s(&["9223372036854775808", "1.5", "", " 1", "+1", "01", "1e2"]),
            'F' => s(&["1e400", "-inf", "+inf", "(1", "1e-20", "", "0x10", "infinity"]),
            'X' => s(&["x", "4611686018427387904", "-9223372036854775808", "9223372036854775808", "1.0"]),
            'M' => vec![b"".to_vec(), b"\xff".to_vec()],
            'P' => s(&["k1", ""]),
            'C' => s(&["18446744073709551615", "18446744073709551616", "4294967296", "+1", ""]),
            'T' => s(&["9223372036854775807", "-9223372036854775808", "9223372036854776"]),
            'S' => s(&["1", "(x", "inf", "(", "", "[1", "(inf"]),
            'B' => s(&["-1", "x"]),
            'D' => s(&["Right", ""]),
            'L' => vec![],
            'H' => s(&["E0E1F9FABFC9D4800C877A703B823AC0578FF8DB"]),
            _ => vec![],
        };
        d.extend(extra);
    }
    d
}

const LETTERS: &str = "KVIFXMPCTSBDLH";

#[derive(Clone, Debug)]
enum Slot {
    Lit(Vec<u8>),
    Dom(char),
    Opt(Vec<Vec<Slot>>),
    Rep(Vec<Slot>, usize, usize),
}

fn atom(t: &str) -> Slot {
    if t.len() == 1 && LETTERS.contains(t) {
        Slot::Dom(t.chars().next().unwrap())
    } else {
        Slot::Lit(t.as_bytes().to_vec())
    }
}

fn parse_template(t: &str) -> Vec<Slot> {
    let mut out = Vec::new();
    for tok in t.split(' ').filter(|x| !x.is_empty()) {
        if let Some(rest) = tok.strip_prefix('?') {
            let alts = rest
                .split('|')
                .map(|a| a.split(':').map(atom).collect::<Vec<_>>())
                .collect::<Vec<_>>();
            out.push(Slot::Opt(alts));
        } else if (tok.ends_with('+') || tok.ends_with('*'))
            && tok.len() >= 2
            && tok[..tok.len() - 1].chars().all(|c| LETTERS.contains(c))
        {
            let grp = tok[..tok.len() - 1].chars().map(Slot::Dom).collect::<Vec<_>>();
            let min = if tok.ends_with('+') { 1 } else { 0 };
            out.push(Slot::Rep(grp, min, 2));
        } else {
            out.push(atom(tok));
        }
    }
    out
}

/// All alternatives (token sequences) one slot can expand to.
fn expand_slot(s: &Slot, p: Profile) -> Vec<Vec<Vec<u8>>> {
    match s {
        Slot::Lit(l) => vec![vec![l.clone()]],
        Slot::Dom(c) => domain(*c, p).into_iter().map(|v| vec![v]).collect(),
        Slot::Opt(alts) => {
            let mut out = vec![vec![]];
            for a in alts {
                out.extend(expand_seq(a, p));
            }
            out
        }
        Slot::Rep(grp, min, max) => {
            let one = expand_seq(grp, p);
            let mut out = Vec::new();
            for n in *min..=*max {
                let mut acc: Vec<Vec<Vec<u8>>> = vec![vec![]];
                for _ in 0..n {
                    let mut next = Vec::new();
                    for a in &acc {
                        for o in &one {
                            let mut x = a.clone();
                            x.extend(o.iter().cloned());
                            next.push(x);
                        }
                    }
                    acc = next;
                }
                out.extend(acc);
            }
            out
        }
    }
}

fn expand_seq(seq: &[Slot], p: Profile) -> Vec<Vec<Vec<u8>>> {
    let mut acc: Vec<Vec<Vec<u8>>> = vec![vec![]];
    for s in seq {
        let alts = expand_slot(s, p);
        let mut next = Vec::with_capacity(acc.len() * alts.len());
        for a in &acc {
            for o in &alts {
                let mut x = a.clone();
                x.extend(o.iter().cloned());
                next.push(x);
            }
        }
        acc = next;
    }
    acc
}

pub fn expand(template: &str, p: Profile) -> Vec<Argv> {
    expand_seq(&parse_template(template), p)
}

/// Templates for the full command set of the parsers (names as in parser.rs / commands.rs).
pub const TEMPLATES: &[&str] = &[
    // server / connection
    "PING", "PING V", "INFO", "TIME", "DBSIZE",
    "CONFIG GET P", "CONFIG SET V V", "CONFIG RESETSTAT", "CONFIG",
    "SELECT C", "ECHO V", "AUTH V", "AUTH V V",
    "ACL WHOAMI", "ACL LIST", "ACL USERS", "ACL GETUSER V", "ACL SETUSER V", "ACL SETUSER V V",
    "ACL DELUSER V+", "ACL CAT", "ACL CAT V", "ACL GENPASS", "ACL GENPASS C", "ACL DRYRUN V V",
    "ACL DRYRUN V V V", "ACL LOG", "ACL LOG C", "ACL LOG RESET", "ACL HELP", "ACL LOAD", "ACL SAVE", "ACL",
    "FLUSHDB", "FLUSHALL", "MULTI", "EXEC", "DISCARD", "WATCH K+", "UNWATCH",
    "EVAL L C K* V*", "EVALSHA H C K* V*", "SCRIPT LOAD L", "SCRIPT EXISTS H+", "SCRIPT FLUSH", "SCRIPT",
    "FUNCTION FLUSH", "FUNCTION", "COMMAND", "COMMAND COUNT", "COMMAND DOCS",
    "CLIENT SETNAME V", "CLIENT GETNAME", "CLIENT ID", "CLIENT INFO", "CLIENT",
    "OBJECT HELP", "OBJECT ENCODING K", "OBJECT REFCOUNT K", "OBJECT IDLETIME K", "OBJECT FREQ K", "OBJECT",
    "DEBUG SLEEP F", "DEBUG OBJECT K", "DEBUG SET V V", "DEBUG", "WAIT C C", "RANDOMKEY",
    // strings
    "GET K", "SET K V ?NX|XX ?GET ?EX:I|PX:I|EXAT:T|PXAT:T|KEEPTTL", "SET K V ?EX:I ?NX|XX", "SET K V ?KEEPTTL ?EX:I",
    "SETEX K I V", "PSETEX K I V", "SETNX K V", "APPEND K V", "GETSET K V", "STRLEN K",
    "MGET K+", "MSET KV+", "MSET K", "MSETNX KV+", "GETRANGE K X X", "SUBSTR K X X", "SETRANGE K C V",
    "SETBIT K C B", "GETBIT K C", "GETEX K ?EX:I|PX:I|EXAT:T|PXAT:T|PERSIST", "GETDEL K",
    "INCR K", "DECR K", "INCRBY K I", "DECRBY K I", "INCRBYFLOAT K F",
    // keys / expiry
    "DEL K+", "UNLINK K+", "EXISTS K+", "TYPE K", "KEYS P",
    "EXPIRE K I ?NX|XX|GT|LT", "PEXPIRE K I ?NX|XX|GT|LT", "EXPIRE K I ?NX ?GT", "EXPIREAT K T", "PEXPIREAT K T",
    "TTL K", "PTTL K", "PERSIST K", "EXPIRETIME K", "PEXPIRETIME K",
    "RENAME K K", "RENAMENX K K", "SORT K", "SORT K ?STORE:K", "SORT K ?ALPHA ?DESC ?LIMIT:X:C",
    "SCAN C ?MATCH:P ?COUNT:C", "HSCAN K C ?MATCH:P ?COUNT:C", "ZSCAN K C ?MATCH:P ?COUNT:C",
    // lists
    "LPUSH K V+", "RPUSH K V+", "LPOP K", "RPOP K", "LPOP K C", "RPOP K C", "LRANGE K X X", "LLEN K", "LINDEX K X",
    "LSET K X V", "LTRIM K X X", "RPOPLPUSH K K", "LMOVE K K D D",
    // sets
    "SADD K M+", "SMEMBERS K", "SISMEMBER K M", "SREM K M+", "SCARD K", "SPOP K", "SPOP K C",
    // hashes
    "HSET K MV+", "HSET K M", "HGET K M", "HGETALL K", "HINCRBY K M I", "HDEL K M+", "HKEYS K", "HVALS K", "HLEN K",
    "HEXISTS K M",
    // sorted sets
    "ZADD K ?NX|XX ?GT|LT ?CH FM+", "ZADD K ?NX ?XX F M", "ZADD K F", "ZRANGE K X X ?WITHSCORES", "ZREVRANGE K X X ?WITHSCORES",
    "ZSCORE K M", "ZREM K M+", "ZRANK K M", "ZCARD K", "ZCOUNT K S S",
    "ZRANGEBYSCORE K S S ?WITHSCORES ?LIMIT:X:C",
    // unknown / stubs
    "NOSUCHCMD", "NOSUCHCMD V", "XADD K V V V", "XINFO V K", "PUBLISH V V", "HELLO", "SUBSCRIBE V",
];

/// Arity probes: every command name with 0..=max_args arguments "k1" (wrong-arity handling).
pub fn arity_probes(max_args: usize) -> Vec<Argv> {
    let mut names: Vec<&str> = TEMPLATES.iter().map(|t| t.split(' ').next().unwrap()).collect();
    names.sort();
    names.dedup();
    let mut out = Vec::new();
    for n in names {
        for a in 0..=max_args {
            let mut v = vec![n.as_bytes().to_vec()];
            for _ in 0..a {
                v.push(b"k1".to_vec());
            }
            out.push(v);
        }
    }
    out
}

pub fn all_instances(p: Profile) -> Vec<Argv> {
    let mut out = Vec::new();
    for t in TEMPLATES {
        out.extend(expand(t, p));
    }
    out.extend(arity_probes(6));
    out.sort();
    out.dedup();
    out
}

pub fn command_names() -> Vec<String> {
    let mut names: Vec<String> = TEMPLATES
        .iter()
        .map(|t| t.split(' ').next().unwrap().to_string())
        .collect();
    names.sort();
    names.dedup();
    names
}
