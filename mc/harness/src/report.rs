//! Violation collection, known-finding matching, replay files and evidence output.
//!
//! A violation is identified by a *signature*: a canonical, input-independent description of
//! the shape of the failing case (command names, entry path, mismatch kind…). Known findings
//! (/verif/known_findings.txt) are matched by exact signature, never by property id, so that a
//! different violation of the same property is still reported.
use crate::cli::Args;
use serde_json::{json, Value};
use std::collections::BTreeMap;
use std::path::PathBuf;
use std::sync::Mutex;
use std::time::Instant;

pub fn verif_root() -> PathBuf {
    PathBuf::from(std::env::var("VERIF_ROOT").unwrap_or_else(|_| "/verif".to_string()))
}

#[derive(Clone, Debug)]
pub struct Violation {
    pub signature: String,
    pub detail: String,
    pub replay: Value,
    pub count: u64,
}

#[derive(Clone, Debug)]
pub struct KnownFinding {
    pub status: String, // open | fixed
    pub property: String,
    pub signature: String,
    pub commit: Option<String>,
    pub description: String,
}

pub fn load_known_findings() -> Vec<KnownFinding> {
    let path = verif_root().join("known_findings.txt");
    let text = match std::fs::read_to_string(&path) {
        Ok(t) => t,
        Err(_) => return Vec::new(),
    };
    let mut out = Vec::new();
    for line in text.lines() {
        let line = line.trim();
        if line.is_empty() || line.starts_with('#') {
            continue;
        }
        let (status, rest) = if let Some(r) = line.strip_prefix("open:") {
            ("open", r.trim())
        } else if let Some(r) = line.strip_prefix("fixed:") {
            ("fixed", r.trim())
        } else {
            eprintln!("known_findings.txt: unparsable line ignored: {line}");
            continue;
        };
        let Some(rest) = rest.strip_prefix("property=") else {
            eprintln!("known_findings.txt: unparsable line ignored: {line}");
            continue;
        };
        let (prop, rest) = rest.split_once(' ').unwrap_or((rest, ""));
        let mut rest = rest.trim();
        let mut commit = None;
        if status == "fixed" {
            if let Some((c, r)) = rest.split_once(' ') {
                commit = Some(c.to_string());
                rest = r.trim();
            }
        }
        let (sig, desc) = match rest.split_once(" -- ") {
            Some((s, d)) => (s.trim(), d.trim()),
            None => (rest, ""),
        };
        let sig = sig.strip_prefix("sig=").unwrap_or(sig);
        out.push(KnownFinding {
            status: status.to_string(),
            property: prop.to_string(),
            signature: sig.to_string(),
            commit,
            description: desc.to_string(),
        });
    }
    out
}

pub struct Reporter {
    pub property: String,
    pub level: String,
    pub tier: String,
    pub seed: u64,
    start: Instant,
    violations: Mutex<BTreeMap<String, Violation>>,
    notes: Mutex<Vec<String>>,
}

fn fnv(s: &str) -> u64 {
    let mut h: u64 = 0xcbf29ce484222325;
    for b in s.bytes() {
        h ^= b as u64;
        h = h.wrapping_mul(0x100000001b3);
    }
    h
}

impl Reporter {
    pub fn new(property: &str, level: &str, args: &Args) -> Self {
        Reporter {
            property: property.to_string(),
            level: level.to_string(),
            tier: args.tier.name().to_string(),
            seed: args.seed,
            start: Instant::now(),
            violations: Mutex::new(BTreeMap::new()),
            notes: Mutex::new(Vec::new()),
        }
    }

    pub fn elapsed_s(&self) -> f64 {
        self.start.elapsed().as_secs_f64()
    }

    /// Record a violating case. Cases are deduplicated by signature; the first (in exploration
    /// order: shortest) case of a signature is kept as its replay.
    pub fn violation(&self, signature: impl Into<String>, detail: impl Into<String>, replay: Value) {
        let signature = signature.into();
        let mut v = self.violations.lock().unwrap();
        match v.get_mut(&signature) {
            Some(e) => e.count += 1,
            None => {
                v.insert(
                    signature.clone(),
                    Violation {
                        signature,
                        detail: detail.into(),
                        replay,
                        count: 1,
                    },
                );
            }
        }
    }

    pub fn note(&self, s: impl Into<String>) {
        self.notes.lock().unwrap().push(s.into());
    }

    pub fn violation_signatures(&self) -> Vec<String> {
        self.violations.lock().unwrap().keys().cloned().collect()
    }

    pub fn violation_count(&self) -> usize {
        self.violations.lock().unwrap().len()
    }

    /// Machinery failure: never a verdict.
    pub fn machinery_failure(&self, msg: &str) -> ! {
        eprintln!("MACHINERY-FAILURE property={} {}", self.property, msg);
        std::process::exit(2);
    }

    /// Write evidence, print KNOWN-FINDING / VIOLATION lines, exit 0 or 1.
    pub fn finish(self, mut coverage: Value, assumptions: Vec<String>) -> ! {
        let known = load_known_findings();
        let violations = self.violations.into_inner().unwrap();
        let root = verif_root();
        let replay_dir = root.join("replays");
        let _ = std::fs::create_dir_all(&replay_dir);
        let mut unlisted = 0usize;
        let mut reproduced: Vec<String> = Vec::new();
        let mut new_sigs: Vec<String> = Vec::new();
        let mut lines: Vec<String> = Vec::new();
        for (sig, v) in &violations {
            let listed = known
                .iter()
                .find(|k| k.status == "open" && k.property == self.property && &k.signature == sig);
            let path = replay_dir.join(format!("{}-{:016x}.json", self.property, fnv(sig)));
            let doc = json!({
                "property": self.property,
                "signature": sig,
                "detail": v.detail,
                "cases_with_this_signature": v.count,
                "replay": v.replay,
            });
            let _ = std::fs::write(&path, serde_json::to_string_pretty(&doc).unwrap_or_default());
            if let Some(k) = listed {
                lines.push(format!(
                    "KNOWN-FINDING: property={} {} ({} cases) -- {}",
                    self.property, sig, v.count, k.description
                ));
                reproduced.push(sig.clone());
            } else {
                unlisted += 1;
                new_sigs.push(sig.clone());
                lines.push(format!("  signature: {}", sig));
                lines.push(format!("  detail: {}", v.detail.replace('\n', " | ")));
                lines.push(format!(
                    "VIOLATION property={} replay={}",
                    self.property,
                    path.display()
                ));
            }
        }
        let mut not_reproduced = Vec::new();
        for k in &known {
            if k.property == self.property && k.status == "open" && !violations.contains_key(&k.signature) {
                not_reproduced.push(k.signature.clone());
                lines.push(format!(
                    "NOTE: listed known finding not reproduced in this run (tier {}): {}",
                    self.tier, k.signature
                ));
            }
        }
        for n in self.notes.into_inner().unwrap() {
            lines.push(format!("NOTE: {n}"));
        }
        let wall = self.start.elapsed().as_secs_f64();
        if let Value::Object(m) = &mut coverage {
            m.insert("known_findings_reproduced".into(), json!(reproduced));
            m.insert("known_findings_not_reproduced".into(), json!(not_reproduced));
            m.insert("unlisted_violation_signatures".into(), json!(new_sigs));
        }
        let evidence = json!({
            "property_id": self.property,
            "tier": self.tier,
            "seed": self.seed,
            "level": self.level,
            "coverage": coverage,
            "assumptions": assumptions,
            "wall_s": wall,
            "violations": unlisted,
        });
        let evdir = root.join("evidence");
        let _ = std::fs::create_dir_all(&evdir);
        let evpath = evdir.join(format!("{}.json", self.property));
        if let Err(e) = std::fs::write(&evpath, serde_json::to_string_pretty(&evidence).unwrap()) {
            eprintln!("MACHINERY-FAILURE cannot write evidence {}: {e}", evpath.display());
            std::process::exit(2);
        }
        for l in lines {
            println!("{l}");
        }
        println!(
            "{} property={} tier={} wall={:.1}s unlisted_violations={} known_reproduced={}",
            if unlisted == 0 { "PASS" } else { "FAIL" },
            self.property,
            self.tier,
            wall,
            unlisted,
            reproduced.len()
        );
        std::process::exit(if unlisted == 0 { 0 } else { 1 });
    }
}

/// Load the `replay` member of a replay file written by [`Reporter::finish`].
pub fn load_replay(path: &std::path::Path) -> Value {
    let text = std::fs::read_to_string(path).unwrap_or_else(|e| {
        eprintln!("cannot read replay {}: {e}", path.display());
        std::process::exit(2);
    });
    let v: Value = serde_json::from_str(&text).unwrap_or_else(|e| {
        eprintln!("cannot parse replay {}: {e}", path.display());
        std::process::exit(2);
    });
    v.get("replay").cloned().unwrap_or(v)
}
